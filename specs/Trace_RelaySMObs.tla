--------------------------- MODULE Trace_RelaySMObs ---------------------------
(* Obs-mode validation of logs recorded from the real UnifiedRelayStateMachine (harness/cmd/relaysm sm).
   The state `o` is a pure fold of the log (nothing is taken from the model), so every invariant below
   is a statement about the real code:

     reset    configuration of the behaviour (selection mode as the real constructor derived it)
     take     the consumer read an instruction from the relay task channel (done / err / n)
     send_ok  the consumer's send succeeded (UsedProviders.AddUsed, then UpdateBatch(nil))
     send_err the consumer's send failed   (UpdateBatch(err))
     result   a provider answered (RemoveUsed + results summary updated + WaitForResults released)
     decide   the state machine goroutine called policy.Decide(in) and got out
     onsend   the state machine goroutine called policy.OnSendRelayResult and got res
     hasreq   the reader goroutine called HasRequiredNodeResults
     cancel   the processing context was cancelled
     end      the driver stopped listening (finished = a final instruction was read; extra =
              instructions read after the final one)

   Environment events are logged before they are performed and state-machine events when they
   happen, so "X logged before Y" implies "X did not happen after Y". *)
EXTENDS RetryPolicy, IOUtils
VARIABLES l, o
Trace == ndJsonDeserialize(IOEnv.VERIF_TRACE)

O0(r) == [sel |-> r.sel, maxRetries |-> r.maxRetries, sendAttempts |-> r.sendAttempts, retryLimit |-> r.retryLimit,
          selOk |-> (r.sel = r.wantSel),
          taken |-> 0, finals |-> 0, afterFinal |-> 0, auth |-> 1,
          okSends |-> 0, authAfterOk |-> 0, stopNR |-> FALSE, authAfterNR |-> 0, authAtNR |-> 0,
          pol |-> [cbe |-> 0, cpe |-> 0], decideOk |-> TRUE, onsendOk |-> TRUE, streakOk |-> TRUE,
          ended |-> FALSE, endOk |-> TRUE]

NRReasons == {"NonRetryableNodeError", "PermanentProtocolError"}
Auth(x, n) == [x EXCEPT !.auth = @ + n,
                        !.authAfterOk = IF x.okSends >= 1 THEN @ + n ELSE @,
                        !.authAfterNR = IF x.stopNR THEN @ + n ELSE @,
                        !.afterFinal = IF x.finals >= 1 THEN @ + 1 ELSE @]

Upd(x, r) ==
  CASE r.ev = "take" ->
         IF r.done THEN [x EXCEPT !.finals = @ + 1, !.afterFinal = IF x.finals >= 1 THEN @ + 1 ELSE @]
         ELSE [x EXCEPT !.taken = @ + 1, !.afterFinal = IF x.finals >= 1 THEN @ + 1 ELSE @]
    [] r.ev = "send_ok" -> [x EXCEPT !.okSends = @ + 1]
    [] r.ev = "decide" ->
         LET cfg == [maxRetries |-> x.maxRetries, retryLimit |-> x.retryLimit, disableBatch |-> TRUE]
             y == [Auth(x, IF r.out.action = "retry" THEN 1 ELSE 0) EXCEPT
                     !.decideOk = @ /\ r.out = Decide(cfg, r.in) /\ r.in.sel = x.sel,
                     !.afterFinal = IF x.finals >= 1 THEN @ + 1 ELSE @]
             nr == r.out.action = "stop" /\ r.out.reason \in NRReasons
         IN [y EXCEPT !.stopNR = @ \/ nr, !.authAtNR = IF nr /\ ~x.stopNR THEN y.auth ELSE @]
    [] r.ev = "onsend" ->
         LET m == OnSend([sendAttempts |-> x.sendAttempts, breaker |-> FALSE, threshold |-> 0], x.pol, r.e)
             y == Auth(x, IF r.res = "retry" THEN 1 ELSE 0)
         IN [y EXCEPT !.pol = m.st, !.onsendOk = @ /\ r.res = m.res /\ r.cbe = m.st.cbe,
                      !.streakOk = @ /\ (r.res = "retry" => r.cbe <= x.sendAttempts),
                      !.afterFinal = IF x.finals >= 1 THEN @ + 1 ELSE @]
    [] r.ev = "end" -> [x EXCEPT !.ended = TRUE, !.endOk = r.finished /\ r.extra = 0]
    [] OTHER -> x

TInit == l = 1 /\ Trace[1].ev = "reset" /\ o = O0(Trace[1])
TNext == /\ l < Len(Trace) /\ l' = l + 1
         /\ LET r == Trace[l + 1] IN o' = IF r.ev = "reset" THEN O0(r) ELSE Upd(o, r)

\* ---- C34 on the real log
ObsSelection      == o.selOk
ObsOneFinal       == o.finals <= 1 /\ o.afterFinal = 0 /\ (o.ended => (o.finals = 1 /\ o.endOk))
ObsJustified      == o.taken <= o.auth
ObsNoResend       == o.sel # "stateless" => (o.authAfterOk = 0 /\ o.okSends <= 1)
\* instruction level: every instruction read after the machine saw a non-retryable error had been authorised
\* before it (authAfterNR, the policy-level count of later SendRetry/Retry answers, is kept for the notes only)
ObsNoRetryAfterNR == o.stopNR => o.taken <= o.authAtNR
ObsAttempts       == o.okSends <= 2 * o.maxRetries + 2
ObsSendRetries    == o.streakOk
ObsDecideConf     == o.decideOk
ObsOnSendConf     == o.onsendOk

Post == LET d == TLCGet("stats").diameter IN PrintT(<<"HWM", d>>) /\ d = Len(Trace)
=============================================================================
