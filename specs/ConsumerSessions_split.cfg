CONSTANTS
  Provs = {"p1", "p2"}
  Relays = {1, 2}
  MaxCU = 2
  CUs = {1, 2}
  MaxVE = 0
  MaxUpdates = 0
  MaxOps = 2
  MaxSess = 3
  ConsecLimit = 1
  FailKinds = {"plain", "block", "sync"}
  PairingSets = {{"p1", "p2"}}
  Supp = {"p1"}
  Addons = {FALSE}
  SplitReserve = TRUE
INIT Init
NEXT Next
INVARIANTS Bound

CHECK_DEADLOCK FALSE
