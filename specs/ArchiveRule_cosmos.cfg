CONSTANTS
  Nums = {1, 2, 219, 220, 221, 319, 320, 321, 4319, 4320, 4321, 5000, 5680, 5899, 5900, 5901, 6000, 9899, 9900, 9901, 9999, 10000, 10001}
  Latests = {0, 1, 100, 5000, 5680, 5681, 6000, 10000}
  Rules = {100, 5680}
  Methods = {"rest_block", "tm_block", "grpc_block"}
  Guard = TRUE
INIT Init
NEXT Next
INVARIANTS TypeOK CodeIsStatement RuleIsStatement NeverMarked EarliestMarked OlderIsMore
CHECK_DEADLOCK FALSE
