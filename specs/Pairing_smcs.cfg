CONSTANTS
  NP = 4
  Stakes = {1}
  GeoSets = {{1}}
  PolGeoSets = {{1}}
  McMixed = {TRUE}
  McMoreSel = FALSE
  Kinds = {0, 3}
  CostBase = 3
  Den = 1
  MaxSlots = 3
  GenN = 0
  SubOrder = "sorted"
  UnionMode = "firstseen"
  Mode = "mc"
INIT SubInit
NEXT Next
INVARIANTS TypeOK OrderIndependent Valid Distinct Bounded Iff
CHECK_DEADLOCK FALSE
