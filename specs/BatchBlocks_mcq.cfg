CONSTANTS
  NumBlocks = {0, 5, 50, 500}
  CallBlocks = {500}
  LogBlocks = {}
  Extra = FALSE
  MaxLen = 3
  Latests = {627, 1000}
  Rule = 127
  Seed = TRUE
  Guard = TRUE
  Tendermint = FALSE
  ZeroOk = TRUE
  EarliestLow = TRUE
INIT Init
NEXT Next
INVARIANTS OrderIndependent CoversNoNA ArchiveMonotoneNoNA ArchiveOnlyFromMembers CUIsSum
CHECK_DEADLOCK FALSE
