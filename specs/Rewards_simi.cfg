CONSTANTS
  Specs = {"S1", "S2"}
  Provs = {"P1", "P2", "P3"}
  Subs = {"C1", "C2"}
  Day = 86400
  BlockTime = 300
  Epoch0 = 1714525200
  FixF3 = TRUE
  BurnNum = 1
  BurnDen = 2
  MaxBoost = 5
  MaxId = 8
  MaxOps = 50
  GenHist = TRUE
  Amounts = {40}
  CUs = {10, 20, 50}
  Funds = {5, 110, 510, 1010}
  Dts = {300}
  Focus = "all"
  MonthLen = 2592000
INIT Init
NEXT GenNextI
INVARIANTS Emit
CHECK_DEADLOCK FALSE
