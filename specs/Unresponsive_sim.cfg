CONSTANTS
  ProvSeq <- PS4
  EB = 20
  NC = 2
  NS = 8
  REC = 3
  MinProv = 3
  SOFT = 3600
  HARD = 86400
  SOFTEP = 2
  MEM = 10
  DTs = {1200, 6000, 40000}
  CUs = {3, 24, 30, 36}
  Ep0 = 11
  T0 = 1000000
  A0 = 22
  FixedServ = TRUE
  MaxEp = 100000
  MaxPay = 100000
  MaxOps = 60
  GenHist = TRUE
INIT Init
NEXT GenNext
INVARIANTS Emit
CHECK_DEADLOCK FALSE
