--------------------------- MODULE Emit_ContentHash ---------------------------
(* Writes the request pairs that ContentHash.tla says have *different* encodings (all single-field
   mutations of two base requests, and equal-length mutations of an earlier entry of 2-3 entry metadata lists) to IOEnv.VERIF_OUT; the real hashes must differ too. *)
EXTENDS ContentHash, IOUtils
SX == INSTANCE SequencesExt
EInit == r1 = <<>> /\ out = <<>> /\ ndJsonSerialize(IOEnv.VERIF_OUT, SX!SetToSeq(MutPairs) \o SX!SetToSeq(MdMutPairs)) /\ MdMutSound
ENext == FALSE /\ UNCHANGED vars
=============================================================================
