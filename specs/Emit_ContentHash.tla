--------------------------- MODULE Emit_ContentHash ---------------------------
(* Writes the request pairs that ContentHash.tla says have *different* encodings (all single-field
   mutations of two base requests) to IOEnv.VERIF_OUT; the real hashes must differ too. *)
EXTENDS ContentHash, IOUtils
SX == INSTANCE SequencesExt
EInit == r1 = <<>> /\ out = <<>> /\ ndJsonSerialize(IOEnv.VERIF_OUT, SX!SetToSeq(MutPairs))
ENext == FALSE /\ UNCHANGED vars
=============================================================================
