--------------------------- MODULE Trace_Quorum ---------------------------
(* Validation of cases recorded from the real RelayProcessor (harness/cmd/quorum).  One line = one
   case: arrival order, threshold, drain flag, what the results manager had consumed when
   ProcessingResult was called (g, e, ne, pe) and the answer (res, cv = RelayResult.CrossValidation).

   Obs (decides C33): Quorum!Oracle over the *logged consumed responses*; the early-exit counter never
   announces a quorum that ProcessingResult then denies; in drained cases everything was consumed, so
   the answer depends on the multiset only.
   Conf (drift only, VERIF_CONF=1): the consumed responses and the answer are those Quorum.tla predicts. *)
EXTENDS Quorum, IOUtils
VARIABLE l
Trace == ndJsonDeserialize(IOEnv.VERIF_TRACE)
ConfMode == IOEnv.VERIF_CONF = "1"

X(r) == [g |-> [d \in Datas |-> r.g[d]], e |-> r.e, ne |-> r.ne, pe |-> r.pe, cq |-> 0, cnt |-> r.cnt]
Proj(x) == [g |-> x.g, e |-> x.e, ne |-> x.ne, pe |-> x.pe, cnt |-> x.cnt]

TInit == l = 0 /\ order = <<>> /\ n0 = 0 /\ T = 0 /\ drain = FALSE /\ c = C0 /\ phase = "wait" /\ early = FALSE /\ res = "none"
TNext == /\ l < Len(Trace) /\ l' = l + 1
         /\ UNCHANGED vars

Cur == Trace[l]
ObsQuorum   == l >= 1 => (Cur.res \in Kinds \cup {"error"} /\ Cur.other = 0 /\ Oracle(X(Cur), Cur.T, Cur.res))
ObsCount    == l >= 1 => (Cur.res # "error" => Cur.cv = CountOf(X(Cur), Cur.res))
ObsEarly    == l >= 1 => ((Cur.met => Cur.res # "error") /\ ~Cur.waitErr)
ObsDrained  == l >= 1 => (Cur.drain => Cur.cnt = Cur.n)
ConfCase    == (l >= 1 /\ ConfMode) =>
                 LET x == Consumed(Cur.order, Cur.T, Cur.drain) IN
                   /\ Proj(x) = Proj(X(Cur))
                   /\ Cur.res \in CodeResults(x, Cur.T)
                   /\ Cur.early = RunWait(C0, Cur.order, Len(Cur.order), Cur.T)[3]

Post == LET d == TLCGet("stats").diameter IN PrintT(<<"HWM", d>>) /\ d = Len(Trace) + 1
=============================================================================
