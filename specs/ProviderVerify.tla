---------------------------- MODULE ProviderVerify ----------------------------
(* protocol/rpcprovider/rpcprovider_server.go: Relay -> initRelay -> verifyRelaySession
   (IsValidEpoch, verifyRelayRequestMetaData, ExtractConsumerAddress, getSingleProviderSession ->
   ProviderSessionManager.GetSession / VerifyPairing / GetMaxCuForUser /
   RegisterProviderSessionWithConsumer), ParseAndValidateMessage, PrepareSessionForUsage,
   TryRelayWithWrapper (ValidateRequest, ValidateAddonsExtensions), finalizeSession
   (OnSessionDone + SendProof / OnSessionFailure).                                (property C39)

   A request is described by what is true about it (ground truth, not the provider's opinion):
     nil       RelayData or RelaySession missing
     provok / specok / lavaok / epochok / hashok     the named field is the right one
     who       who signed what arrives: "A", "B" (known consumers), "X" (some other address - e.g. any
               signed field was changed after signing), "none" (no address can be recovered)
     pairing   what the chain answers if asked whether `who` is paired: "valid" | "invalid" | "error"
     parseok / seenok / addonok   the (correctly hashed and signed) payload parses / has a legal seen
               block / names a supported addon
     sid, cusum, relaynum         session id, cumulative CU and relay number carried by the request
   Allowed missing CU threshold is 0 (as configured by the harness), one epoch, virtual epoch 0. *)
EXTENDS Integers, Sequences, FiniteSets, TLC, Json

CONSTANTS Sids,     \* session ids
          RC,       \* compute units of the API used
          MaxCU,    \* GetMaxCuForUser
          MaxOps,
          GenHist

VARIABLES cons,     \* [VEpochs -> [{"A","B"} -> [reg, used, sess : [Sids -> [has, cu, rn, locked]]]]]
          out,      \* last request, verdict, state before (pre, xpre), state of an "X" signer after, the epochs for
                    \* which the chain was asked about the pairing, proofs handed out
                    \* (an "X" signer is a fresh identity in the exhaustive runs; in recorded traces the same
                    \*  tampered bytes recover the same address again, so its state before the call is logged: xpre)
          nops, hist

vars == <<cons, out, nops, hist>>
Known == {"A", "B"}
VEpochs == {"cur", "prev"}     \* epochs valid for use: the current one and an older one still in memory; "old" = blocked
NoSess == [has |-> FALSE, cu |-> 0, rn |-> 0, locked |-> FALSE]
Fresh == [reg |-> FALSE, used |-> 0, sess |-> [s \in Sids |-> NoSess]]
NoReq == [nil |-> FALSE, provok |-> TRUE, specok |-> TRUE, lavaok |-> TRUE, ep |-> "cur", epochok |-> TRUE, hashok |-> TRUE,
          who |-> "none", pairing |-> [e \in VEpochs |-> "valid"], parseok |-> TRUE, seenok |-> TRUE, addonok |-> TRUE,
          sid |-> 0, cusum |-> 0, relaynum |-> 0]
NoOut == [ev |-> "none", req |-> NoReq, served |-> FALSE, why |-> "", pre |-> [e \in VEpochs |-> [c \in Known |-> Fresh]],
          xpre |-> Fresh, x |-> Fresh, asked |-> {}, proofs |-> {}]
Record(r) == hist' = IF GenHist THEN Append(hist, r) ELSE hist

\* the guard ladder on the state cs of the signer in the request's epoch; result [served, why, cs, asked, proofs]
\* r.pairing[e] = what the chain answers about (signer, this provider) for epoch e
Handle(cs, r) ==
  LET rej(why, st, asked) == [served |-> FALSE, why |-> why, cs |-> st, asked |-> asked, proofs |-> {}] IN
  IF r.nil THEN rej("nil", cs, {})
  ELSE IF ~r.epochok THEN rej("epoch", cs, {})
  ELSE IF ~r.provok THEN rej("provider", cs, {})
  ELSE IF ~r.specok THEN rej("spec", cs, {})
  ELSE IF ~r.lavaok THEN rej("lava", cs, {})
  ELSE IF ~r.hashok THEN rej("hash", cs, {})
  ELSE IF r.who = "none" THEN rej("sig", cs, {})
  ELSE
  LET asked == IF cs.reg THEN {} ELSE {r.ep} IN       \* VerifyPairing(consumer, provider, request.Epoch, spec)
  IF ~cs.reg /\ r.pairing[r.ep] = "error" THEN rej("pairing-error", cs, asked)
  ELSE IF ~cs.reg /\ r.pairing[r.ep] = "invalid" THEN rej("pairing-invalid", cs, asked)
  ELSE
  LET s0 == cs.sess[r.sid]
      s1 == IF s0.has THEN s0 ELSE [NoSess EXCEPT !.has = TRUE]     \* createNewSingleProviderSession
      cs2 == [cs EXCEPT !.reg = TRUE, !.sess[r.sid] = s1]
  IN IF s1.rn + 1 > r.relaynum THEN rej("relaynum", cs2, asked)
     ELSE IF ~r.parseok THEN rej("parse", cs2, asked)
     ELSE IF r.cusum < s1.cu + RC THEN rej("cumismatch", cs2, asked)        \* missing CU not allowed (threshold 0)
     ELSE LET add == r.cusum - s1.cu IN
          IF cs2.used + add > MaxCU THEN rej("maxcu", cs2, asked)
          ELSE IF ~r.seenok THEN rej("seen", cs2, asked)                    \* CU added, then rolled back by OnSessionFailure
          ELSE IF ~r.addonok THEN rej("addon", cs2, asked)
          ELSE [served |-> TRUE, why |-> "", asked |-> asked,
                cs |-> [cs2 EXCEPT !.used = @ + add, !.sess[r.sid] = [s1 EXCEPT !.cu = r.cusum, !.rn = r.relaynum]],
                proofs |-> IF add > 0 THEN {[c |-> r.who, ep |-> r.ep, sid |-> r.sid, cu |-> r.cusum]} ELSE {}]

Relay(r) ==
  LET known == r.who \in Known /\ r.ep \in VEpochs
      cs == IF known THEN cons[r.ep][r.who] ELSE Fresh
      h == Handle(cs, r)
  IN /\ cons' = IF known THEN [cons EXCEPT ![r.ep][r.who] = h.cs] ELSE cons
     /\ out' = [ev |-> "relay", req |-> r, served |-> h.served, why |-> h.why, pre |-> cons, xpre |-> Fresh,
                x |-> IF known THEN Fresh ELSE h.cs, asked |-> h.asked, proofs |-> h.proofs]
     /\ Record(r)

-----------------------------------------------------------------------------
\* exhaustive exploration: the valid next request of consumer c on session sid in epoch ep, with at most
\* one deviation, arriving with c's signature intact or (any signed field touched) as an unknown signer;
\* the chain's pairing answer may differ between the two valid epochs
Devs == {"none", "nil", "epoch", "prov", "spec", "lava", "hash", "nosig", "parse", "seen", "addon",
         "culow", "cuhigh", "cuover", "rn"}
Other(e) == IF e = "cur" THEN "prev" ELSE "cur"
Req(c, ep, sid, dev, tampered, pairing, pairingOther) ==
  LET s == cons[ep][c].sess[sid] IN
  [nil |-> dev = "nil", provok |-> dev # "prov", specok |-> dev # "spec", lavaok |-> dev # "lava",
   ep |-> IF dev = "epoch" THEN "old" ELSE ep, epochok |-> dev # "epoch", hashok |-> dev # "hash",
   who |-> IF dev = "nosig" THEN "none" ELSE IF tampered THEN "X" ELSE c,
   pairing |-> [e \in VEpochs |-> IF e = ep THEN pairing ELSE pairingOther],
   parseok |-> dev # "parse", seenok |-> dev # "seen", addonok |-> dev # "addon",
   sid |-> sid,
   cusum |-> s.cu + RC + (CASE dev = "culow" -> -1 [] dev = "cuhigh" -> 1 [] dev = "cuover" -> MaxCU [] OTHER -> 0),
   relaynum |-> IF dev = "rn" THEN s.rn ELSE s.rn + 1]

Init == cons = [e \in VEpochs |-> [c \in Known |-> Fresh]] /\ out = NoOut /\ nops = 0 /\ hist = <<>>
Next == /\ nops < MaxOps /\ nops' = nops + 1
        /\ \E c \in Known, ep \in VEpochs, sid \in Sids, dev \in Devs, tampered \in BOOLEAN,
              pairing \in {"valid", "invalid", "error"}, pairingOther \in {"valid", "invalid"} :
             Relay(Req(c, ep, sid, dev, tampered, pairing, pairingOther))
Spec == Init /\ [][Next]_vars

-----------------------------------------------------------------------------
\* Generator: concrete corruption kinds understood by harness/cmd/provverify (stateless: the driver
\* derives the valid next request from the provider's real state)
Kinds == <<"none", "none", "none", "none", "none", "none", "none", "none", "none", "none", "none", "none",
           "nildata", "nilsession", "sigflip", "sigempty",
           "data", "apiurl", "reqblock", "seenblock", "salt", "addon", "ext", "conntype", "apiiface", "metadata",
           "provider", "spec", "lava", "epochold", "hash", "cusumlow", "cusumhigh", "cuover", "relaynum",
           "unparsable", "badaddon", "negseen">>
GenNext == /\ nops < MaxOps /\ nops' = nops + 1
           /\ \E i \in {RandomElement(1..Len(Kinds))}, c \in {RandomElement({"A", "A", "B"})}, sid \in {RandomElement(Sids)},
                 rs \in {RandomElement(BOOLEAN)}, p \in {RandomElement(1..4)}, q \in {RandomElement(1..2)},
                 ep \in {RandomElement(VEpochs)} :
                hist' = Append(hist, [signer |-> c, sid |-> sid, kind |-> Kinds[i], resign |-> rs, epoch |-> ep,
                                      pairing |-> IF p = 1 THEN "invalid" ELSE IF p = 2 THEN "error" ELSE "valid",
                                      pairingother |-> IF q = 1 THEN "invalid" ELSE "valid"])
           /\ UNCHANGED <<cons, out>>
Emit == nops < MaxOps \/ PrintT(<<"BEH", ToJson(hist)>>)

-----------------------------------------------------------------------------
\* Properties (C39) - predicates on `out` (request, verdict, state before) and the state after
EpOf(r) == IF r.ep \in VEpochs THEN r.ep ELSE "cur"         \* (only used where the request's epoch is valid)
Post(e, c) == IF c \in Known THEN cons[e][c] ELSE out.x
Pre(e, c) == IF c \in Known THEN out.pre[e][c] ELSE out.xpre
AuthenticReq(r) == /\ ~r.nil /\ r.provok /\ r.specok /\ r.lavaok /\ r.epochok /\ r.ep \in VEpochs /\ r.hashok
                   /\ r.who # "none"
                   /\ (Pre(r.ep, r.who).reg \/ r.pairing[r.ep] = "valid")      \* paired in the REQUEST's epoch
\* served only if the request names this provider / spec / lava chain, a valid epoch, a matching
\* content hash and is signed by a consumer the chain pairs with this provider for that epoch
ServesOnlyAuthentic == out.served => AuthenticReq(out.req)
\* the chain is asked about the pairing only for the epoch the request names
AsksRequestEpoch == out.asked \subseteq {out.req.ep}
\* ... and the session layer accepted it (relay number fresh, CU within the limits)
ServesOnlyInSync == out.served =>
                      LET q == Pre(EpOf(out.req), out.req.who)  p == q.sess[out.req.sid] IN
                        /\ out.req.relaynum > p.rn /\ out.req.cusum >= p.cu + RC
                        /\ q.used + (out.req.cusum - p.cu) <= MaxCU
                        /\ out.req.parseok /\ out.req.seenok /\ out.req.addonok
\* rejected requests leave session and CU state unchanged (in every epoch); the only trace a rejected
\* request may leave is the registration of its (chain-paired) signer and an empty session in its epoch
RejectKeeps ==
  (out.ev = "relay" /\ ~out.served) =>
     /\ \A e \in VEpochs : \A c \in Known \cup {"X"} :
          /\ Post(e, c).used = Pre(e, c).used
          /\ \A s \in Sids : Pre(e, c).sess[s].has => Post(e, c).sess[s] = Pre(e, c).sess[s]
          /\ \A s \in Sids : (~Pre(e, c).sess[s].has /\ Post(e, c).sess[s].has) =>
                /\ Post(e, c).sess[s].cu = 0 /\ Post(e, c).sess[s].rn = 0
                /\ c = out.req.who /\ s = out.req.sid /\ (c \in Known => e = out.req.ep) /\ AuthenticReq(out.req)
          /\ (Post(e, c).reg /\ ~Pre(e, c).reg) => (c = out.req.who /\ (c \in Known => e = out.req.ep) /\ AuthenticReq(out.req))
          /\ (Pre(e, c).reg => Post(e, c).reg)
     /\ out.proofs = {}
\* payment is claimed (a proof handed to the reward server) only for served requests, for exactly
\* the signer / epoch / session / CU of the request
ProofOnlyIfServed == out.proofs # {} =>
                       /\ out.served
                       /\ out.proofs = {[c |-> out.req.who, ep |-> out.req.ep, sid |-> out.req.sid, cu |-> out.req.cusum]}
\* a served request is accounted exactly, in its epoch only
ServedAccounting == out.served =>
                      LET c == out.req.who  e == EpOf(out.req)
                          p == Pre(e, c).sess[out.req.sid]  q == Post(e, c).sess[out.req.sid] IN
                        /\ q.has /\ q.cu = out.req.cusum /\ q.rn = out.req.relaynum
                        /\ Post(e, c).used = Pre(e, c).used + (out.req.cusum - p.cu)
                        /\ \A e2 \in VEpochs, d \in Known : (e2 # e \/ d # c) => cons[e2][d] = out.pre[e2][d]
\* no session stays locked after the call returned
NoLockLeak == \A e \in VEpochs : \A c \in Known \cup {"X"} : \A s \in Sids : ~Post(e, c).sess[s].locked
CuBound == \A e \in VEpochs : \A c \in Known : cons[e][c].used <= MaxCU
=============================================================================
