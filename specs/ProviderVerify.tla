---------------------------- MODULE ProviderVerify ----------------------------
(* protocol/rpcprovider/rpcprovider_server.go: Relay -> initRelay -> verifyRelaySession
   (IsValidEpoch, verifyRelayRequestMetaData, ExtractConsumerAddress, getSingleProviderSession ->
   ProviderSessionManager.GetSession / VerifyPairing / GetMaxCuForUser /
   RegisterProviderSessionWithConsumer), ParseAndValidateMessage, PrepareSessionForUsage,
   TryRelayWithWrapper (ValidateRequest, ValidateAddonsExtensions), finalizeSession
   (OnSessionDone + SendProof / OnSessionFailure).                                (property C39)

   A request is described by what is true about it (ground truth, not the provider's opinion):
     nil       RelayData or RelaySession missing
     provok / specok / lavaok / epochok / hashok     the named field is the right one
     who       who signed what arrives: "A", "B" (known consumers), "X" (some other address - e.g. any
               signed field was changed after signing), "none" (no address can be recovered)
     pairing   what the chain answers if asked whether `who` is paired: "valid" | "invalid" | "error"
     parseok / seenok / addonok   the (correctly hashed and signed) payload parses / has a legal seen
               block / names a supported addon
     sid, cusum, relaynum         session id, cumulative CU and relay number carried by the request
   Allowed missing CU threshold is 0 (as configured by the harness), one epoch, virtual epoch 0. *)
EXTENDS Integers, Sequences, FiniteSets, TLC, Json

CONSTANTS Sids,     \* session ids
          RC,       \* compute units of the API used
          MaxCU,    \* GetMaxCuForUser
          MaxOps,
          GenHist

VARIABLES cons,     \* [{"A","B"} -> [reg, used, sess : [Sids -> [has, cu, rn, locked]]]]
          out,      \* last request, verdict, state before (pre, xpre), state of an "X" signer after, proofs handed out
                    \* (an "X" signer is a fresh identity in the exhaustive runs; in recorded traces the same
                    \*  tampered bytes recover the same address again, so its state before the call is logged: xpre)
          nops, hist

vars == <<cons, out, nops, hist>>
Known == {"A", "B"}
NoSess == [has |-> FALSE, cu |-> 0, rn |-> 0, locked |-> FALSE]
Fresh == [reg |-> FALSE, used |-> 0, sess |-> [s \in Sids |-> NoSess]]
NoReq == [nil |-> FALSE, provok |-> TRUE, specok |-> TRUE, lavaok |-> TRUE, epochok |-> TRUE, hashok |-> TRUE,
          who |-> "none", pairing |-> "valid", parseok |-> TRUE, seenok |-> TRUE, addonok |-> TRUE,
          sid |-> 0, cusum |-> 0, relaynum |-> 0]
NoOut == [ev |-> "none", req |-> NoReq, served |-> FALSE, why |-> "", pre |-> [c \in Known |-> Fresh], xpre |-> Fresh, x |-> Fresh, proofs |-> {}]
Record(r) == hist' = IF GenHist THEN Append(hist, r) ELSE hist

\* the guard ladder on the state cs of the signer; result [served, why, cs, proofs]
Handle(cs, r) ==
  LET rej(why, st) == [served |-> FALSE, why |-> why, cs |-> st, proofs |-> {}] IN
  IF r.nil THEN rej("nil", cs)
  ELSE IF ~r.epochok THEN rej("epoch", cs)
  ELSE IF ~r.provok THEN rej("provider", cs)
  ELSE IF ~r.specok THEN rej("spec", cs)
  ELSE IF ~r.lavaok THEN rej("lava", cs)
  ELSE IF ~r.hashok THEN rej("hash", cs)
  ELSE IF r.who = "none" THEN rej("sig", cs)
  ELSE IF ~cs.reg /\ r.pairing = "error" THEN rej("pairing-error", cs)
  ELSE IF ~cs.reg /\ r.pairing = "invalid" THEN rej("pairing-invalid", cs)
  ELSE
  LET s0 == cs.sess[r.sid]
      s1 == IF s0.has THEN s0 ELSE [NoSess EXCEPT !.has = TRUE]     \* createNewSingleProviderSession
      cs2 == [cs EXCEPT !.reg = TRUE, !.sess[r.sid] = s1]
  IN IF s1.rn + 1 > r.relaynum THEN rej("relaynum", cs2)
     ELSE IF ~r.parseok THEN rej("parse", cs2)
     ELSE IF r.cusum < s1.cu + RC THEN rej("cumismatch", cs2)        \* missing CU not allowed (threshold 0)
     ELSE LET add == r.cusum - s1.cu IN
          IF cs2.used + add > MaxCU THEN rej("maxcu", cs2)
          ELSE IF ~r.seenok THEN rej("seen", cs2)                    \* CU added, then rolled back by OnSessionFailure
          ELSE IF ~r.addonok THEN rej("addon", cs2)
          ELSE [served |-> TRUE, why |-> "",
                cs |-> [cs2 EXCEPT !.used = @ + add, !.sess[r.sid] = [s1 EXCEPT !.cu = r.cusum, !.rn = r.relaynum]],
                proofs |-> IF add > 0 THEN {[c |-> r.who, sid |-> r.sid, cu |-> r.cusum]} ELSE {}]

Relay(r) ==
  LET cs == IF r.who \in Known THEN cons[r.who] ELSE Fresh
      h == Handle(cs, r)
  IN /\ cons' = IF r.who \in Known THEN [cons EXCEPT ![r.who] = h.cs] ELSE cons
     /\ out' = [ev |-> "relay", req |-> r, served |-> h.served, why |-> h.why, pre |-> cons, xpre |-> Fresh,
                x |-> IF r.who \in Known THEN Fresh ELSE h.cs, proofs |-> h.proofs]
     /\ Record(r)

-----------------------------------------------------------------------------
\* exhaustive exploration: the valid next request of consumer c on session sid, with at most one
\* deviation, arriving with c's signature intact or (any signed field touched) as an unknown signer
Devs == {"none", "nil", "epoch", "prov", "spec", "lava", "hash", "nosig", "parse", "seen", "addon",
         "culow", "cuhigh", "cuover", "rn"}
Req(c, sid, dev, tampered, pairing) ==
  LET s == cons[c].sess[sid] IN
  [nil |-> dev = "nil", provok |-> dev # "prov", specok |-> dev # "spec", lavaok |-> dev # "lava",
   epochok |-> dev # "epoch", hashok |-> dev # "hash",
   who |-> IF dev = "nosig" THEN "none" ELSE IF tampered THEN "X" ELSE c,
   pairing |-> pairing, parseok |-> dev # "parse", seenok |-> dev # "seen", addonok |-> dev # "addon",
   sid |-> sid,
   cusum |-> s.cu + RC + (CASE dev = "culow" -> -1 [] dev = "cuhigh" -> 1 [] dev = "cuover" -> MaxCU [] OTHER -> 0),
   relaynum |-> IF dev = "rn" THEN s.rn ELSE s.rn + 1]

Init == cons = [c \in Known |-> Fresh] /\ out = NoOut /\ nops = 0 /\ hist = <<>>
Next == /\ nops < MaxOps /\ nops' = nops + 1
        /\ \E c \in Known, sid \in Sids, dev \in Devs, tampered \in BOOLEAN, pairing \in {"valid", "invalid", "error"} :
             Relay(Req(c, sid, dev, tampered, pairing))
Spec == Init /\ [][Next]_vars

-----------------------------------------------------------------------------
\* Generator: concrete corruption kinds understood by harness/cmd/provverify (stateless: the driver
\* derives the valid next request from the provider's real state)
Kinds == <<"none", "none", "none", "none", "none", "none", "none", "none", "none", "none", "none", "none",
           "nildata", "nilsession", "sigflip", "sigempty",
           "data", "apiurl", "reqblock", "seenblock", "salt", "addon", "ext", "conntype", "apiiface", "metadata",
           "provider", "spec", "lava", "epochold", "hash", "cusumlow", "cusumhigh", "cuover", "relaynum",
           "unparsable", "badaddon", "negseen">>
GenNext == /\ nops < MaxOps /\ nops' = nops + 1
           /\ \E i \in {RandomElement(1..Len(Kinds))}, c \in {RandomElement({"A", "A", "B"})}, sid \in {RandomElement(Sids)},
                 rs \in {RandomElement(BOOLEAN)}, p \in {RandomElement(1..4)} :
                hist' = Append(hist, [signer |-> c, sid |-> sid, kind |-> Kinds[i], resign |-> rs,
                                      pairing |-> IF p = 1 THEN "invalid" ELSE IF p = 2 THEN "error" ELSE "valid"])
           /\ UNCHANGED <<cons, out>>
Emit == nops < MaxOps \/ PrintT(<<"BEH", ToJson(hist)>>)

-----------------------------------------------------------------------------
\* Properties (C39) - predicates on `out` (request, verdict, state before) and the state after
Post(c) == IF c \in Known THEN cons[c] ELSE out.x
Pre(c) == IF c \in Known THEN out.pre[c] ELSE out.xpre
AuthenticReq(r) == /\ ~r.nil /\ r.provok /\ r.specok /\ r.lavaok /\ r.epochok /\ r.hashok
                   /\ r.who # "none"
                   /\ (Pre(r.who).reg \/ r.pairing = "valid")
\* served only if the request names this provider / spec / lava chain, a valid epoch, a matching
\* content hash and is signed by a consumer the chain pairs with this provider
ServesOnlyAuthentic == out.served => AuthenticReq(out.req)
\* ... and the session layer accepted it (relay number fresh, CU within the limits)
ServesOnlyInSync == out.served =>
                      LET p == Pre(out.req.who).sess[out.req.sid] IN
                        /\ out.req.relaynum > p.rn /\ out.req.cusum >= p.cu + RC
                        /\ Pre(out.req.who).used + (out.req.cusum - p.cu) <= MaxCU
                        /\ out.req.parseok /\ out.req.seenok /\ out.req.addonok
\* rejected requests leave session and CU state unchanged; the only trace a rejected request may
\* leave is the registration of its (chain-paired) signer and an empty session
RejectKeeps ==
  (out.ev = "relay" /\ ~out.served) =>
     /\ \A c \in Known \cup {"X"} :
          /\ Post(c).used = Pre(c).used
          /\ \A s \in Sids : Pre(c).sess[s].has => Post(c).sess[s] = Pre(c).sess[s]
          /\ \A s \in Sids : (~Pre(c).sess[s].has /\ Post(c).sess[s].has) =>
                /\ Post(c).sess[s].cu = 0 /\ Post(c).sess[s].rn = 0
                /\ c = out.req.who /\ s = out.req.sid /\ AuthenticReq(out.req)
          /\ (Post(c).reg /\ ~Pre(c).reg) => (c = out.req.who /\ AuthenticReq(out.req))
          /\ (Pre(c).reg => Post(c).reg)
     /\ out.proofs = {}
\* payment is claimed (a proof handed to the reward server) only for served requests, for exactly
\* the signer / session / CU of the request
ProofOnlyIfServed == out.proofs # {} =>
                       /\ out.served
                       /\ out.proofs = {[c |-> out.req.who, sid |-> out.req.sid, cu |-> out.req.cusum]}
\* a served request is accounted exactly
ServedAccounting == out.served =>
                      LET c == out.req.who  p == Pre(c).sess[out.req.sid]  q == Post(c).sess[out.req.sid] IN
                        /\ q.has /\ q.cu = out.req.cusum /\ q.rn = out.req.relaynum
                        /\ Post(c).used = Pre(c).used + (out.req.cusum - p.cu)
                        /\ \A d \in Known \ {c} : cons[d] = out.pre[d]
\* no session stays locked after the call returned
NoLockLeak == \A c \in Known \cup {"X"} : \A s \in Sids : ~Post(c).sess[s].locked
CuBound == \A c \in Known : cons[c].used <= MaxCU
=============================================================================
