CONSTANTS
  ProvSeq <- PS4
  Scores = {0}
  Weights = {1}
  Stakes <- SVq
  Decays <- Dq
  MaxRep = 0
  MaxEp = 0
  MaxOps = 0
  GenHist = FALSE
  GenQos = {"great"}
  GenGaps = {0}
INIT TInit
NEXT TNext
INVARIANTS T_Bounded T_Order T_Valid T_Scored
PROPERTIES T_PsStep
POSTCONDITION Post
CHECK_DEADLOCK FALSE
