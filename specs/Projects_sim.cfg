CONSTANTS
  Keys = {"c1", "c2", "k1", "k2", "k3"}
  ProjNames = {"c1/adm", "c1/low", "c1/dis", "c1/q1", "c2/adm", "c2/q1"}
  MaxEpoch = 8
  MaxOps = 12
  GenHist = TRUE
  Window = 3
INIT Init
NEXT GenNext
INVARIANTS Emit
CHECK_DEADLOCK FALSE
