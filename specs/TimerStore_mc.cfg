CONSTANTS
  Keys = {"a", "b"}
  MaxE = 4
  MaxOps = 5
  GenHist = FALSE
  GenKinds = {"H", "T"}
INIT Init
NEXT Next
INVARIANTS TypeOK NoLate NextSound ExactlyOnce NotEarly Ordered Unique
CHECK_DEADLOCK FALSE
