CONSTANTS
  N = 3
  M = 3
  MaxLen = 9
  MaxOps = 4
  InitLens = {2, 3, 4}
  QD = {0, 2, 3}
  QA = {0, 1, 3, 4}
  NodeThenPoll = FALSE
  GenHist = FALSE
INIT Init
NEXT Next
INVARIANTS TypeOK Shape Mirrors MirrorsHead ForkOnlyIfChanged ForkIfChanged ForkCbLogged
PROPERTIES FailKeeps
CHECK_DEADLOCK FALSE
