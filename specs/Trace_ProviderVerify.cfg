CONSTANTS
  Sids = {1, 2}
  RC = 10
  MaxCU = 100
  MaxOps = 100000
  GenHist = FALSE
INIT TInit
NEXT TNext
INVARIANTS ServesOnlyAuthentic AsksRequestEpoch ServesOnlyInSync RejectKeeps ProofOnlyIfServed ServedAccounting NoLockLeak CuBound NoLateProof
POSTCONDITION Post_
CHECK_DEADLOCK FALSE
