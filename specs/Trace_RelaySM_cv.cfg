CONSTANTS
  Sel = "cv"
  MaxRetries = 3
  SendAttempts = 2
  RetryLimit = 2
  TimeoutPriority = FALSE
  NumFirst = 3
  Need = 2
  MaxTicks = 1000
  MaxSendErrs = 1000
  MaxResults = 1000
  BuCap = 1000
  FixF34 = TRUE
  KindSet = {"ok", "ne", "nr", "pe", "pp", "em"}
  GenHist = FALSE
INIT TInit
NEXT TNext
INVARIANTS HWM
POSTCONDITION Post
CHECK_DEADLOCK FALSE
