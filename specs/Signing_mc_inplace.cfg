CONSTANTS
  AsFound = FALSE
  InPlace = TRUE
  MdLen = 1
INIT Init
NEXT Next
PROPERTIES ReadOnly
CHECK_DEADLOCK FALSE
