--------------------------- MODULE Trace_FixationStore ---------------------------
(* Conf-mode validation of traces recorded from the real x/fixationstore (harness/cmd/fixationstore).
   Every line carries the operation, its arguments, its result class and ALL observable answers
   of the real store after the step: Find for every (index, block 0..MaxBlock+1), Get, Has,
   Versions.  C14 *is* "behaves like the model" on exactly these observables, so a rejected line
   is a violation (checks/C14.py re-executes it first).  Because the matched spec state carries
   the reference map as a ghost, the invariants Refines / GCSafe / ResAgree / NoPanic evaluated
   here compare the REAL answers with the abstract versioned map.
   The internal bookkeeping (refcounts, IsLatest, DeleteAt, StaleAt, timers, index liveness) is
   matched only when VERIF_MATCH_INT = "1" (second pass, reported as drift, never a verdict). *)
EXTENDS FixationStore, IOUtils
VARIABLE l
Trace == ndJsonDeserialize(IOEnv.VERIF_TRACE)
MatchInt == IOEnv.VERIF_MATCH_INT = "1"
tvars == <<vars, l>>

ToSet(s) == {s[i] : i \in 1..Len(s)}
B2I(b) == IF b THEN 1 ELSE 0

ObsOk(n, r) ==
  CASE n = "now"  -> now' = r.now
    [] n = "find" -> \A x \in Indices : \A b \in 0..(Len(r.find[x]) - 1) : FindAnsS(ents'[x], now', b) = r.find[x][b + 1]
    [] n = "get"  -> \A x \in Indices : FindAnsS(ents'[x], now', now') = r.get[x]
    [] n = "vers" -> \A x \in Indices : DOMAIN ents'[x] = ToSet(r.vers[x])
    [] n = "has"  -> \A x \in Indices : DOMAIN ents'[x] = ToSet(r.has[x])
    [] n = "res"  -> (r.ev \in {"append", "del", "get"}) => res' = r.res
ObsNames == {"now", "find", "get", "vers", "has", "res"}
\* on a mismatch the names of the differing observables are printed (used for the signature)
MatchObs(r) == LET bad == {n \in ObsNames : ~ObsOk(n, r)} IN
               bad = {} \/ (PrintT(<<"DIAG", l + 1, bad>>) /\ FALSE)

MatchInternal(r) ==
  /\ \A x \in Indices :
       /\ {<<v, ents'[x][v].ref, B2I(ents'[x][v].latest), ents'[x][v].del, ents'[x][v].stale, ents'[x][v].data>> :
             v \in DOMAIN ents'[x]} = ToSet(r.ents[x])
       /\ live'[x] = r.live[x]
  /\ timers' = ToSet(r.timers)

Match(r) == MatchObs(r) /\ (MatchInt => MatchInternal(r))

TInit == Init /\ l = 1 /\ Trace[1].ev = "reset"
TReset == /\ Trace[l + 1].ev = "reset"
          /\ now' = 1
          /\ ents' = [x \in Indices |-> EmptyMap] /\ live' = [x \in Indices |-> "none"]
          /\ timers' = {} /\ panic' = "" /\ res' = "" /\ rres' = "" /\ kf' = ""
          /\ ref' = [x \in Indices |-> EmptyMap]
          /\ nops' = 0 /\ hist' = <<>>
\* the harness only replays legal operations; legality (L1-L4) is re-checked here against the
\* spec state, so that an illegal replayed operation is rejected instead of being blamed on the code
StepOf(r) == \/ r.ev = "append" /\ LegalAppend(r.x, r.b) /\ AppendEntry(r.x, r.b, r.d)
             \/ r.ev = "modify" /\ ModifyEntry(r.x, r.b, r.d)
             \/ r.ev = "get"    /\ GetEntry(r.x)
             \/ r.ev = "put"    /\ PutEntryA(r.x, r.b)
             \/ r.ev = "del"    /\ DelEntry(r.x, r.b)
             \/ r.ev = "tick"   /\ Tick
\* Every behaviour is judged on its own.  When a step is the cause of an open known finding (the
\* spec, which models the code as it is, sets kf), <<"KF", kf, line>> is printed and the remaining
\* rows of that behaviour are skipped (the store is corrupt from there on); the next reset starts
\* the next behaviour, so one behaviour tripping a known finding never masks another one.
TNext == /\ l < Len(Trace) /\ l' = l + 1
         /\ LET r == Trace[l + 1] IN
              \/ TReset
              \/ (r.ev # "reset" /\ kf # "" /\ UNCHANGED vars)
              \/ (r.ev # "reset" /\ kf = "" /\ ~r.panic /\ nops' = nops + 1 /\ StepOf(r) /\ Match(r)
                  /\ (kf' = "" \/ PrintT(<<"KF", kf', l + 1>>)))
TSpec == TInit /\ [][TNext]_tvars

Post == LET d == TLCGet("stats").diameter IN PrintT(<<"HWM", d>>) /\ d = Len(Trace)
=============================================================================
