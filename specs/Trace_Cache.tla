----------------------------- MODULE Trace_Cache -----------------------------
(* Validation of traces recorded from the real ecosystem/cache.RelayerCacheServer +
   chainlib.HashCacheRequest (harness/cmd/relaycache).  C36.

   Obs mode decides: `last` is the LOGGED result of the real operation (hit / payload id and size
   class recovered from the returned bytes / byte equality with the stored payload / request
   unchanged / panic / key-hash class), the ghosts `sets`, `lats`, `kids` are built from the logged
   arguments of the real calls, and the invariants of Cache.tla (HitSound, BytesOK, HashRule,
   Unchanged, NoPanic, KeySound) are evaluated by TLC on them.  A miss is accepted anywhere
   (ristretto admission / eviction / TTL).

   Conf (drift only): the model state temp/fin/latest/sseen is advanced with Cache!DoSet on every
   accepted Set, `last.pred` is the model's GetResult on it; where the real answer differs from the
   prediction (hit vs miss, which payload, resolved block, Set acceptance, ignored fields not
   ignored by the key hash) the always-true invariant DriftEmit prints a DRIFT line. *)
EXTENDS Cache, IOUtils
VARIABLE l
Trace == ndJsonDeserialize(IOEnv.VERIF_TRACE)
tvars == <<vars, l>>

Obs(r, pred) == [ev |-> r.ev, req |-> r.req, blk |-> r.blk, fin |-> r.fin, bh |-> r.bh, sid |-> r.sid,
                 ok |-> r.ok, hit |-> r.hit, pid |-> r.rpid, rsz |-> r.rsz, eq |-> r.eq, rb |-> r.rb,
                 unch |-> r.unch /\ ~r.herr, panic |-> r.panic, pred |-> pred]

TInit == Init /\ l = 1 /\ Trace[1].ev = "reset"

TReset == /\ temp' = {} /\ fin' = {} /\ latest' = {} /\ sseen' = {} /\ sets' = {} /\ lats' = {} /\ kids' = {}
          /\ last' = NoLast /\ nops' = 0 /\ ndrops' = 0 /\ hist' = <<>>

TSet(r) == /\ r.pid = nops + 1
           /\ IF r.ok THEN DoSet(r.req, r.blk, r.fin, r.bh, r.size, r.rl, r.sid)
              ELSE UNCHANGED <<temp, fin, latest, sseen, sets, lats>>
           /\ kids' = kids \cup {<<r.kid, Ident(r.req)>>}
           /\ last' = Obs(r, NoRes)
           /\ nops' = nops + 1 /\ UNCHANGED <<ndrops, hist>>

TGet(r) == /\ r.pid = nops + 1
           /\ kids' = kids \cup {<<r.kid, Ident(r.req)>>}
           /\ last' = Obs(r, GetResult(r.req, r.blk, r.fin, r.bh, r.sid))
           /\ nops' = nops + 1
           /\ UNCHANGED <<temp, fin, latest, sseen, sets, lats, ndrops, hist>>

TNext == /\ l < Len(Trace) /\ l' = l + 1
         /\ LET r == Trace[l + 1] IN
              \/ r.ev = "reset" /\ TReset
              \/ r.ev = "set" /\ TSet(r)
              \/ r.ev = "get" /\ TGet(r)
TSpec == TInit /\ [][TNext]_tvars

\* drift (never a verdict)
ConfOK == /\ last.ev = "get" => /\ last.hit = last.pred.hit
                                /\ (last.hit /\ last.pred.hit) => last.pid = last.pred.pid
                                /\ last.rb = last.pred.rb
          /\ last.ev = "set" => last.ok = (last.blk >= 0)
          /\ \A x, y \in kids : x[2] = y[2] => x[1] = y[1]      \* ignored fields are ignored by the hash
DriftEmit == ConfOK \/ PrintT(<<"DRIFT", l, last.ev, last.pred.why, last.hit>>)

Post == LET d == TLCGet("stats").diameter IN PrintT(<<"HWM", d>>) /\ d = Len(Trace)
=============================================================================
