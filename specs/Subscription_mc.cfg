CONSTANTS
  EB = 20
  StaleP = 200
  MaxOps = 5
  MaxMonths = 3
  GenHist = TRUE
  GenBias = FALSE
  FixRenew = TRUE
  PlanIdx = {"p1", "p2"}
  Buyers = {"c", "b"}
  Durs = {1, 2, 12}
  WithRelay = FALSE
  PriceVar = {0, 1}
INIT Init
NEXT Next
INVARIANTS TypeOK PlanAvailable NoPanic CuBounded LeftPositive
CHECK_DEADLOCK FALSE
VIEW NoHistView
