CONSTANTS
  Years = {2024, 2025}
  Secs = {0, 3661, 86399}
INIT TInit
NEXT TNext
INVARIANTS Agrees
POSTCONDITION Post
CHECK_DEADLOCK FALSE
