CONSTANTS
  AsFound = TRUE
  InPlace = FALSE
  MdLen = 1
INIT Init
NEXT Next
PROPERTIES ReadOnly
CHECK_DEADLOCK FALSE
