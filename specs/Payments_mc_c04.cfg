CONSTANTS
  Creators = {"p1", "p3"}
  Signers = {"c1", "k1"}
  CUs = {60, 150}
  Sessions = {1, 2, 3}
  Muts = {"none", "qzero", "badge", "lava"}
  Muts2 = {"none", "lava", "badge"}
  MaxRelays = 2
  EpochsToSave = 1
  MaxEpoch = 2
  MaxOps = 2
  GenHist = FALSE
  F2Fixed = FALSE
  CuGuard = FALSE
  Profile = ""
INIT Init
NEXT Next
VIEW View
INVARIANTS C18_CreditLeAlloc
PROPERTIES C04_LeSignedProp C04_EpochBoundProp C04_QosProp
CHECK_DEADLOCK FALSE
