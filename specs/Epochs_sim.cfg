CONSTANTS
  EBs = {2, 3, 5}
  ETSs = {1, 2, 3}
  MaxHeight = 40
  MaxChanges = 3
  GenHist = TRUE
  FixWalk = TRUE
INIT Init
NEXT GenNext
INVARIANTS Emit
CHECK_DEADLOCK FALSE
