------------------------------- MODULE Signing -------------------------------
(* Relay signatures (utils/sigs, x/pairing/types/relay_session.go, relay_exchange.go,
   protocol/lavaprotocol/request_builder.go, response_builder.go).

   Two signed objects:
     "session"  RelaySession, signed by the consumer (ConstructRelayRequest -> sigs.Sign), checked by
                sigs.ExtractSignerAddress.  DataToSign = text form of the session with Sig and Badge
                cleared, one SHA-256 round.
     "reply"    RelayExchange = (RelayRequest, RelayReply), signed by the provider (SignRelayResponse),
                checked by VerifyRelayReply.  DataToSign = reply.Data ++ text form of request.RelayData
                with Salt cleared ++ concatenated proto encodings of reply.Metadata, two rounds.

   A message is a record field -> abstract value (an index into a table of concrete values owned by
   the harness); the only structured value is a metadata list (sequence of <<name, value>> pairs)
   because the reply's metadata is signed through a concatenation of proto encodings with no
   delimiter between entries, which `MdEnc` transcribes (a proto3 string field is omitted when
   empty).  Cryptography is abstract: a signature *is* the signed view of the message at signing
   time, and verification compares views (unforgeability is assumed, not modelled).

   Actions: Sign, Tamper (one single-field mutation), Verify.  C25:
     Binds     verification succeeds  <=>  no signed field differs from what was signed
     ReadOnly  Verify changes neither the request nor the reply  (msg' = msg)
   `AsFound` selects what Verify does to the message it checks: TRUE = the code as found
   (RelayExchange.DataToSign clears the salt through the shared RelayData pointer, F14),
   FALSE = fixes/F14_salt_copy.patch.

   "Modifies" includes memory that is not visible through the reply's fields: reply.Data is a
   window buf[:n] of a buffer.  `buf.layout` says what lies behind the window: "exact" (no spare
   capacity), "spare" (spare capacity >= the signed message, owned by somebody else, modelled as
   `buf.tail`), "shared" (the request's data is a window of the same buffer right behind the reply
   data).  A DataToSign that appends to reply.Data in place (InPlace = TRUE) overwrites the tail and,
   in the shared layout, the request data - after which the untouched exchange no longer verifies
   (Verify is therefore modelled twice: Verify, Reverify; `Stable`). *)
EXTENDS Integers, Sequences, FiniteSets, TLC, Json

CONSTANTS AsFound,   \* see above
          InPlace,   \* TRUE = DataToSign builds the message with append(reply.Data, ...) (seeded/C25_1)
          MdLen      \* longest metadata list enumerated

VARIABLES kind, msg, signed, tampered, verdict, verdict2, phase,
          buf      \* memory layout of the checked reply's data: [layout, tail]
vars == <<kind, msg, signed, tampered, verdict, verdict2, phase, buf>>

(***************************************************************************************************)
(* Field tables                                                                                    *)
(***************************************************************************************************)
\* RelaySession: everything but the signature and the badge is signed
SessSigned   == {"spec_id", "content_hash", "session_id", "cu_sum", "provider", "relay_num", "epoch",
                 "lava_chain_id", "unresponsive_providers",
                 "qos_report", "qos_report.latency", "qos_report.availability", "qos_report.sync",
                 "qos_excellence_report", "qos_excellence_report.latency",
                 "qos_excellence_report.availability", "qos_excellence_report.sync"}
SessUnsigned == {"badge"}
\* RelayExchange: reply data + metadata, request data without the salt
ReplySigned   == {"reply.data", "reply.metadata",
                  "req.connection_type", "req.api_url", "req.data", "req.request_block", "req.api_interface",
                  "req.metadata", "req.addon", "req.extensions", "req.seen_block", "req.request_id",
                  "req.task_id", "req.tx_id"}
ReplyUnsigned == {"req.salt", "reply.latest_block", "reply.finalized_blocks_hashes", "reply.sig_blocks",
                  "req.session.cu_sum", "req.session.relay_num"}

Kinds == {"session", "reply"}
Signed(k)   == IF k = "session" THEN SessSigned ELSE ReplySigned
Unsigned(k) == IF k = "session" THEN SessUnsigned ELSE ReplyUnsigned
Fields(k)   == Signed(k) \cup Unsigned(k) \cup {"sig"}
MdFields    == {"reply.metadata", "req.metadata"}

Strs  == {"", "a", "b"}
Pairs == Strs \X Strs
MdVals == UNION {[1..n -> Pairs] : n \in 0..MdLen}
Vals(f) == IF f \in MdFields THEN MdVals ELSE 0..2       \* "sig": 0 = as produced, 1/2 = corrupted

(***************************************************************************************************)
(* What the code signs                                                                             *)
(***************************************************************************************************)
\* concatenation of the proto encodings of the entries: tag+length+bytes per non-empty string field
RECURSIVE MdEnc(_)
MdEnc(md) == IF md = <<>> THEN <<>>
             ELSE LET e == Head(md) IN
                  (IF e[1] # "" THEN <<<<"name", e[1]>>>> ELSE <<>>) \o
                  (IF e[2] # "" THEN <<<<"value", e[2]>>>> ELSE <<>>) \o MdEnc(Tail(md))

\* the signed view of a message as the code computes it
View(k, m) == [f \in Signed(k) |-> IF f = "reply.metadata" THEN MdEnc(m[f]) ELSE m[f]]
\* the signed view the property demands (field values themselves)
Ideal(k, m) == [f \in Signed(k) |-> m[f]]

(***************************************************************************************************)
(* Actions                                                                                         *)
(***************************************************************************************************)
\* base messages: every field carries table value b, except: metadata lists; the signature (0 = as
\* produced); the two "report present" selectors (0 = present with the nested values, 1 = nil,
\* 2 = another report)
Present == {"qos_report", "qos_excellence_report"}
Base(k, b) == [f \in Fields(k) |-> IF f \in MdFields THEN (IF b = 0 THEN <<>> ELSE <<<<"a", "b">>>>) ELSE
                                   IF f = "sig" \/ f \in Present THEN 0 ELSE b]
Layouts == {"exact", "spare", "shared"}
Init == /\ kind \in Kinds /\ \E b \in 0..1 : msg = Base(kind, b)
        /\ buf \in {[layout |-> y, tail |-> "sentinel"] : y \in IF kind = "reply" THEN Layouts ELSE {"exact"}}
        /\ signed = <<>> /\ tampered = <<>> /\ verdict = "none" /\ verdict2 = "none" /\ phase = "new"

\* (the provider signs its own objects; only the consumer-side objects that are *checked* are modelled)
Sign == /\ phase = "new" /\ phase' = "signed"
        /\ signed' = [view |-> View(kind, msg), ideal |-> Ideal(kind, msg), orig |-> msg]
        /\ UNCHANGED <<kind, msg, tampered, verdict, verdict2, buf>>

Tamper(f, v) == /\ phase = "signed" /\ phase' = "tampered"
                /\ msg' = [msg EXCEPT ![f] = v]
                /\ tampered' = <<f, v>>
                /\ UNCHANGED <<kind, signed, verdict, verdict2, buf>>

\* sigs.RecoverPubKey over DataToSign: the signer is recovered iff the views agree and the signature is intact
Accepts(k, m, s) == m["sig"] = 0 /\ View(k, m) = s.view
\* what evaluating DataToSign does to the checked objects (nothing, in the correct code)
Scribbles == InPlace /\ kind = "reply" /\ buf.layout # "exact"
AfterCheck(m) == LET m1 == IF AsFound /\ kind = "reply" THEN [m EXCEPT !["req.salt"] = 0] ELSE m   \* 0 = empty salt
                 IN  IF Scribbles /\ buf.layout = "shared" THEN [m1 EXCEPT !["req.data"] = 3] ELSE m1   \* 3 = garbage
Verify == /\ phase \in {"signed", "tampered"} /\ phase' = "verified"
          /\ verdict' = IF Accepts(kind, msg, signed) THEN "ok" ELSE "reject"
          /\ msg' = AfterCheck(msg)
          /\ buf' = IF Scribbles THEN [buf EXCEPT !.tail = "overwritten"] ELSE buf
          /\ UNCHANGED <<kind, signed, tampered, verdict2>>
Reverify == /\ phase = "verified" /\ phase' = "reverified"
            /\ verdict2' = IF Accepts(kind, msg, signed) THEN "ok" ELSE "reject"
            /\ msg' = AfterCheck(msg)
            /\ buf' = IF Scribbles THEN [buf EXCEPT !.tail = "overwritten"] ELSE buf
            /\ UNCHANGED <<kind, signed, tampered, verdict>>

Next == Sign \/ (\E f \in Fields(kind) : \E v \in Vals(f) : Tamper(f, v)) \/ Verify \/ Reverify

(***************************************************************************************************)
(* C25                                                                                             *)
(***************************************************************************************************)
\* expected verdict by the property: nothing signed changed and the signature itself is intact
Expected(k, orig, m) == IF m["sig"] = 0 /\ Ideal(k, m) = Ideal(k, orig) THEN "ok" ELSE "reject"
TamperedReplyMd == tampered # <<>> /\ tampered[1] = "reply.metadata"
\* holds for every field whose signed form is its delimited text form ...
BindsOther   == phase \in {"verified", "reverified"} /\ ~TamperedReplyMd => verdict = Expected(kind, signed.orig, msg)
\* ... but not for the reply's metadata (MdEnc is not injective): TLC refutes this one, the collision
\* pairs are replayed against the real code (checks/C25.py)
BindsReplyMd == phase \in {"verified", "reverified"} /\ TamperedReplyMd => verdict = Expected(kind, signed.orig, msg)
\* Verify must not touch the message it checks, nor the memory behind the reply data
\* (fails for AsFound = TRUE on a base with a salt, and for InPlace = TRUE on a buffer with spare capacity)
ReadOnly == [][phase' \in {"verified", "reverified"} => msg' = msg /\ buf' = buf]_vars
\* checking again gives the same answer
Stable   == phase = "reverified" => verdict2 = verdict
TypeOK   == kind \in Kinds /\ phase \in {"new", "signed", "tampered", "verified", "reverified"}

\* classification of a metadata collision x # y, MdEnc(x) = MdEnc(y)
Strip(md) == SelectSeq(md, LAMBDA e : e # <<"", "">>)
MdClass(x, y) == IF Strip(x) = Strip(y) THEN "empty-entry" ELSE "split-entry"
=============================================================================
