CONSTANTS
  Alpha = {"a", "b"}
  W = 1
INIT EInit
NEXT ENext
CHECK_DEADLOCK FALSE
