CONSTANTS
  EB = 20
  StaleP = 200
  BT = 1
  MaxOps = 16
  MaxMonths = 6
  GenHist = TRUE
  GenBias = TRUE
  FixRenew = TRUE
  PlanIdx = {"p1", "p2"}
  Durs = {1, 2, 12}
  WithRelay = TRUE
  Consumers = {"c1"}
  ThirdParty = {"b"}
  WithDrain = FALSE
  Acts = {"planadd", "plandel", "buy", "adv", "auto", "block", "epoch", "stale"}
  PriceVar = {0, 1}
INIT Init
NEXT GenNext
INVARIANTS Emit
CHECK_DEADLOCK FALSE
