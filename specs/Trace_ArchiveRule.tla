------------------------- MODULE Trace_ArchiveRule -------------------------
(* Validation of (input, real output) lines recorded by harness/cmd/chainparse for C32.
   One line per grid vector:
     in  = [req, latest, rule, method]  (TLC-emitted, ArchiveRule_emit*.cfg)
     out = << real ParseMsg result of the rendered JSON-RPC request (ETH1 spec, archive extension
              enabled, rule distance patched to in.rule, ExtensionInfo{LatestBlock: in.latest}),
              real extensionslib.ExtensionParser.ExtensionParsing result on a message whose
              RequestedBlock() is (latest tag, in.req) >>
   The property C32 *is* "archive marking = the statement's iff", so a line whose real marking
   differs from NeedsArchive / NeedsArchiveE is a conformance failure on the named observable
   (GetExtensions()).  Every line is evaluated (the walk never stops); failures are printed as
   <<"BAD", line, kind>> and classified by checks/C32.py:
     panic the real ParseMsg panicked / hung on a well-formed request (no marking at all)
     bind  the request did not parse to the block the vector asked for (binding problem, not a verdict)
     conf  ParseMsg marking # NeedsArchive
     rule  ExtensionParsing marking # NeedsArchiveE *)
EXTENDS ArchiveRule, IOUtils
VARIABLE l
Trace == ndJsonDeserialize(IOEnv.VERIF_TRACE)
tvars == <<vars, l>>

BindOK(r) == LET o == r.out[1] IN ~o.err /\ ~o.panic /\ ~o.hang /\ o.lat = r.in.req /\ o.api = r.in.api
ConfOK(r) == r.out[1].arch = NeedsArchive(r.in.req, r.in.latest, r.in.rule, r.in.method)
RuleOK(r) == LET o == r.out[2] IN ~o.panic /\ o.arch = NeedsArchiveE(r.in.req, r.in.latest, r.in.rule)

Crashed(r) == r.out[1].panic \/ r.out[1].hang
Report(i, r) ==
  /\ (~Crashed(r)) \/ PrintT(<<"BAD", i, "panic">>)
  /\ Crashed(r) \/ BindOK(r) \/ PrintT(<<"BAD", i, "bind">>)
  /\ (~BindOK(r)) \/ ConfOK(r) \/ PrintT(<<"BAD", i, "conf">>)
  /\ RuleOK(r) \/ PrintT(<<"BAD", i, "rule">>)

TInit == /\ l = 0 /\ req = 0 /\ latest = 0 /\ rule = 0 /\ method = ""
TNext == /\ l < Len(Trace) /\ l' = l + 1
         /\ LET r == Trace[l + 1] IN
              /\ req' = r.in.req /\ latest' = r.in.latest /\ rule' = r.in.rule /\ method' = r.in.method
              /\ Report(l + 1, r)

Post == LET d == TLCGet("stats").diameter IN PrintT(<<"HWM", d - 1>>) /\ d - 1 = Len(Trace)
=============================================================================
