CONSTANTS
  Scenarios <- ScnEnum
  FixCreate = TRUE
  FixUpdate = TRUE
  GenHist = TRUE
INIT Init
NEXT Next
INVARIANTS Emit
CHECK_DEADLOCK FALSE
