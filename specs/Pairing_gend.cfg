CONSTANTS
  NP = 5
  Stakes = {100, 200, 250, 300}
  GeoSets = {{1}, {4}, {32}, {1, 4}, {1, 32}, {4, 32}, {1, 4, 32}}
  PolGeoSets = {}
  McMixed = {}
  McMoreSel = FALSE
  Kinds = {0, 1, 2, 3, 5, 7, 15}
  CostBase = 10000
  Den = 21
  MaxSlots = 5
  GenN = 6
  SubOrder = "sorted"
  UnionMode = "any"
  Mode = "gendust"
INIT GenInit
NEXT GenNext
INVARIANTS EmitCfg
CHECK_DEADLOCK FALSE
