----------------------------- MODULE Subscription -----------------------------
(* x/subscription (keeper/subscription.go, msg_server_buy.go, msg_server_auto_renewal.go, cu_tracker.go)
   together with x/plans (keeper/plan.go) on top of the fixation store, for the consumers in Consumers ("c1" rich, "c2" poorer) and a
   poor third-party buyer "b"; every consumer may hold one subscription, all share the plans.

   Both the plans and the subscription live in fixation stores, so the spec carries a compact
   transcription of the fixation-store operations these two modules use (AppendEntry incl. the
   DeleteAt transfer, ModifyEntry, GetEntry, PutEntry, FindEntry, DelEntry incl. trimming, the
   future/delete/stale timer callbacks incl. the stale-marker GC rule).  A version map is a function
   block |-> [ref, latest, del, stale, d].

   Actions = transactions / proposals (PlanAdd, PlanDel, Buy [new | extend | upgrade], BuyAdvance
   [new | replace], AutoRenew) and block advancing (Block, Epoch, Stale = past the stale period, Month =
   one block whose time is exactly the subscription's month expiry).  A block advance runs
   EndBlock(now) [cu-tracker timers -> RewardAndResetCuTracker] and BeginBlock(now+1) in the order of the
   Tester (testutil/keeper): plans fixation timers, subscription fixation timers, subscription month
   timers [advanceMonth]; the epoch details used inside these callbacks are still the ones of the
   previous block (epochstorage's BeginBlock runs later), which is why CbNextEpoch(h) = h on an epoch
   start.

   The model describes the code AFTER the F1 fix (renewSubscription swaps the plan reference).
   FixRenew = FALSE gives the code as it was (the swap is dead code) - TLC then finds the
   PlanAvailable / NoPanic counter-example at design level.

   Ghost variables: owed (months the consumer is entitled to, C12), paidTotal / chargedTotal. *)
EXTENDS Integers, Sequences, FiniteSets, TLC, Json

CONSTANTS EB,        \* epoch blocks (20 in the Tester)
          StaleP,    \* fixation stale period = BlocksToSave (200)
          BT,        \* time units per ordinary block (1 in the model, 300 s on the real chain)
          MaxOps,    \* operation budget
          MaxMonths, \* month ticks per behaviour
          GenHist,   \* record history (generator / trace)
          GenBias,   \* generator only: failing transactions are mostly skipped
          FixRenew,  \* TRUE = code with the F1 fix
          PlanIdx,   \* plan indices in use, subset of {"p1", "p2"}
          Consumers, \* subset of {"c1", "c2"}
          ThirdParty,\* {"b"} or {}: a buyer that is not a consumer
          Durs,      \* months offered to Buy / BuyAdvance
          WithRelay, \* generator: relay payments (C11)
          WithDrain, \* buyers may spend their tokens elsewhere
          Acts,      \* action kinds enabled in Next (exhaustive configs may restrict them)
          PriceVar   \* price variants of a new plan version: price = base + 10 * n

VARIABLES now,      \* block height
          tm,       \* abstract block time (1 per ordinary block, MONTH per month)
          pl,       \* [PlanIdx -> version map], d = [price]
          sv,       \* [Consumers -> version map of the subscription], d = sub record
          mt,       \* armed month timers: set of <<expiry, consumer>>
          ct,       \* cu-tracker timers: function <<height, consumer>> |-> [credit, sblk]
          tcu,      \* tracked cu: function <<consumer, provider, sblk>> |-> cu (cu tracker fixation, abstracted)
          bal,      \* [Buyers -> tokens]
          mb,       \* tokens held by the subscription module
          pay,      \* last payout (observation): [credit, total, paid, shares, returned, topool]
          owed,     \* ghost: [Consumers -> months still owed] (C12)
          nmonths,  \* month ticks so far
          panicked, \* a begin/end-block panic happened (chain halt)
          nops, hist

vars == <<now, tm, pl, sv, mt, ct, tcu, bal, mb, pay, owed, nmonths, panicked, nops, hist>>

Providers == {"v1", "v2", "v3"}
Buyers == Consumers \cup ThirdParty
StartBal(b) == IF b = "c1" THEN 20000 ELSE IF b = "c2" THEN 420 ELSE 260
BasePrice(p) == IF p = "p1" THEN 100 ELSE 150
Discount(p) == IF p = "p1" THEN 20 ELSE 25          \* annual discount percentage
PlanCu(p) == IF p = "p1" THEN 1000 ELSE 2000        \* PlanPolicy.TotalCuLimit
MONTH == 1000000
INF == 999999999
NONE == -1
BTS == StaleP                                        \* BlocksToSave
LIMIT_PER_CU == 100
MAXDUR == 12

Max(S) == CHOOSE x \in S : \A y \in S : y <= x
Min(S) == CHOOSE x \in S : \A y \in S : x <= y
Upd(f, k, v) == [x \in (DOMAIN f) \cup {k} |-> IF x = k THEN v ELSE f[x]]
Rem(f, k) == [x \in (DOMAIN f) \ {k} |-> f[x]]
RemS(f, K) == [x \in (DOMAIN f) \ K |-> f[x]]
RECURSIVE AscSeq(_)
AscSeq(S) == IF S = {} THEN <<>> ELSE LET m == Min(S) IN <<m>> \o AscSeq(S \ {m})

NextEpoch(h) == ((h \div EB) + 1) * EB            \* GetNextEpoch(ctx, h) in a transaction
CbNextEpoch(h) == IF h % EB = 0 THEN h ELSE NextEpoch(h)   \* GetCurrentNextEpoch inside timer callbacks
NextMonth(t) == t + MONTH

-----------------------------------------------------------------------------
(* Fixation store operations on one version map V at ctx height h. *)
Ent(ref, latest, del, stale, d) == [ref |-> ref, latest |-> latest, del |-> del, stale |-> stale, d |-> d]
StaleBy(e, h) == e.ref = 0 /\ e.stale <= h

\* getUnmarshaledEntryForBlock
Nearest(V, b, h) ==
  LET c == {v \in DOMAIN V : v <= b} IN
  IF c = {} THEN NONE
  ELSE LET m == Max(c) IN IF StaleBy(V[m], h) /\ ~(V[m].del <= b) THEN NONE ELSE m
\* FindEntry
FindV(V, b, h) == LET m == Nearest(V, b, h) IN IF m = NONE \/ V[m].del <= b THEN NONE ELSE m

\* putEntry(entry e stored at version v); returns [V, p]
PutRaw(V, v, e, h) ==
  IF e.ref = 0 THEN [V |-> V, p |-> TRUE]
  ELSE LET r == e.ref - 1 IN
       IF r = 0 /\ v > h THEN [V |-> Rem(V, v), p |-> FALSE]                       \* putFutureEntry
       ELSE [V |-> Upd(V, v, [e EXCEPT !.ref = r, !.stale = IF r = 0 THEN h + StaleP ELSE @]), p |-> FALSE]

\* PutEntry (exact version; panics when the version is gone or its refcount is 0)
PutV(V, v, h) ==
  IF v \notin DOMAIN V THEN [V |-> V, p |-> TRUE]
  ELSE IF V[v].latest /\ V[v].ref = 1 THEN [V |-> V, p |-> FALSE]                 \* refused, logged
  ELSE PutRaw(V, v, V[v], h)

\* GetEntry: [V, v] with v = NONE when not found
GetV(V, h) ==
  LET m == Nearest(V, h, h) IN
  IF m = NONE \/ V[m].del <= h THEN [V |-> V, v |-> NONE]
  ELSE [V |-> Upd(V, m, [V[m] EXCEPT !.ref = @ + 1]), v |-> m]

\* AppendEntry: [V, err, p]
AppendV(V, b, d, h) ==
  LET m == Nearest(V, b, h) IN
  IF m = NONE \/ V[m].del <= h
  THEN [V |-> Upd(V, b, Ent(1, b <= h, INF, INF, d)), err |-> FALSE, p |-> FALSE]
  ELSE LET e == V[m] IN
       IF b < h /\ ~e.latest THEN [V |-> V, err |-> TRUE, p |-> FALSE]
       ELSE IF b = m THEN [V |-> Upd(V, m, [e EXCEPT !.d = d]), err |-> FALSE, p |-> FALSE]
       ELSE IF e.del <= b THEN [V |-> V, err |-> TRUE, p |-> FALSE]
       ELSE LET da == e.del
                e1 == [e EXCEPT !.del = INF]
                V1 == Upd(V, m, e1)
                r  == IF b <= h /\ e1.latest THEN PutRaw(V1, m, [e1 EXCEPT !.latest = FALSE], h)
                      ELSE [V |-> V1, p |-> FALSE]
            IN [V |-> Upd(r.V, b, Ent(1, b <= h, da, INF, d)), err |-> FALSE, p |-> r.p]

ModifyV(V, v, d) == Upd(V, v, [V[v] EXCEPT !.d = d])

\* DelEntry: [V, err, p]
DelV(V, b, h) ==
  IF b < h THEN [V |-> V, err |-> TRUE, p |-> FALSE]
  ELSE
  LET da == IF b > h THEN b - 1 ELSE b
      m  == Nearest(V, da, h)
      trimmed(W) == {v \in DOMAIN W : v >= b}
  IN IF m = NONE
     THEN IF Nearest(V, b, h) # NONE
          THEN [V |-> RemS(V, trimmed(V)), err |-> FALSE, p |-> FALSE]
          ELSE [V |-> V, err |-> TRUE, p |-> FALSE]
     ELSE IF V[m].del < INF THEN [V |-> V, err |-> TRUE, p |-> FALSE]
     ELSE LET e == [V[m] EXCEPT !.del = b]
              r == IF b = h THEN PutRaw(Upd(V, m, e), m, [e EXCEPT !.latest = FALSE], h)
                   ELSE [V |-> Upd(V, m, e), p |-> FALSE]
              \* trimFutureEntries removes every version >= DeleteAt; for a version that is not in the
              \* future this is the delTimer panic of DESIGN F16
              f16 == \E v \in trimmed(r.V) : v <= h
          IN [V |-> RemS(r.V, trimmed(r.V)), err |-> FALSE, p |-> r.p \/ f16]

\* deleteStaleEntries
RECURSIVE GcLoop(_, _, _, _, _, _)
GcLoop(V, bs, i, safeE, safeI, h) ==
  IF i > Len(bs) THEN V
  ELSE LET v == bs[i]  e == V[v] IN
       IF e.del < INF /\ ~safeI THEN GcLoop(V, bs, i + 1, FALSE, FALSE, h)
       ELSE IF ~StaleBy(e, h) THEN GcLoop(V, bs, i + 1, FALSE, FALSE, h)
       ELSE IF ~safeE THEN GcLoop(V, bs, i + 1, TRUE, FALSE, h)
       ELSE GcLoop(Rem(V, v), bs, i + 1, safeE, safeI, h)
Gc(V, h) == GcLoop(V, AscSeq(DOMAIN V), 1, TRUE, TRUE, h)

\* BeginBlock timers of one fixation index at height h (future < delete < stale): [V, p]
TickV(V, h) ==
  LET \* 1. a future version matures
      r1 == IF h \in DOMAIN V /\ ~V[h].latest /\ V[h].ref > 0 /\ V[h].del > h
            THEN LET m == Nearest(V, h - 1, h) IN
                 IF m # NONE /\ V[m].latest
                 THEN IF V[m].del <= h THEN [V |-> V, p |-> TRUE]
                      ELSE LET r == PutRaw(V, m, [V[m] EXCEPT !.latest = FALSE], h)
                           IN [V |-> Upd(r.V, h, [r.V[h] EXCEPT !.latest = TRUE]), p |-> r.p]
                 ELSE [V |-> Upd(V, h, [V[h] EXCEPT !.latest = TRUE]), p |-> FALSE]
            ELSE [V |-> V, p |-> FALSE]
      \* 2. a pending delete matures
      ds == {v \in DOMAIN r1.V : r1.V[v].del = h}
      r2 == IF ds # {}
            THEN LET v == Max(ds) IN
                 LET r == PutRaw(r1.V, v, [r1.V[v] EXCEPT !.latest = FALSE], h) IN [V |-> r.V, p |-> r1.p \/ r.p]
            ELSE r1
      \* 3. stale period over
      r3 == IF \E v \in DOMAIN r2.V : r2.V[v].ref = 0 /\ r2.V[v].stale = h
            THEN [V |-> Gc(r2.V, h), p |-> r2.p] ELSE r2
  IN r3

-----------------------------------------------------------------------------
(* Subscription records *)
NoFut == [on |-> FALSE, cr |-> "", pi |-> "", pb |-> 0, d |-> 0, credit |-> 0]
NoPay == [credit |-> 0, total |-> 0, paid |-> 0, returned |-> 0, topool |-> 0]

\* state threaded through transactions and callbacks
Cur == [pl |-> pl, sv |-> sv, mt |-> mt, ct |-> ct, tcu |-> tcu, bal |-> bal, mb |-> mb, pay |-> pay,
        owed |-> owed, p |-> FALSE, err |-> FALSE]
Install(S) == /\ pl' = S.pl /\ sv' = S.sv /\ mt' = S.mt /\ ct' = S.ct /\ tcu' = S.tcu /\ bal' = S.bal
              /\ mb' = S.mb /\ pay' = S.pay /\ owed' = S.owed
Fail(S) == [S EXCEPT !.err = TRUE]

PlanPrice(S, p, v) == S.pl[p][v].d.price
FullPrice(price, p, d) == IF d >= 12 THEN ((price * d) * (100 - Discount(p))) \div 100 ELSE price * d

SubAt(S, c, b, h) == FindV(S.sv[c], b, h)          \* version found for block b (NONE = no subscription)

\* addCuTrackerTimerForSubscription (divides by DurationLeft before looking at it: F4)
AddCuTimer(S, c, blk, s) ==
  IF s.left = 0 THEN [S |-> [S EXCEPT !.p = TRUE], s |-> s]
  ELSE LET rw == s.credit \div s.left IN
       [S |-> [S EXCEPT !.ct = Upd(@, <<blk + BTS - 1, c>>, [credit |-> rw, sblk |-> s.blk])],
        s |-> [s EXCEPT !.credit = @ - rw]]

\* resetSubscriptionDetailsAndAppendEntry: [S, s] (S.err on append failure)
ResetAppend(S, c, s, blk, delOld, h, t) ==
  LET s1 == [s EXCEPT !.cuL = s.cuT, !.blk = blk, !.exp = NextMonth(t)]
      mt1 == (IF delOld THEN S.mt \ {<<s.exp, c>>} ELSE S.mt) \cup {<<NextMonth(t), c>>}
      a == AppendV(S.sv[c], blk, s1, h)
  IN [S |-> [S EXCEPT !.mt = mt1, !.sv[c] = a.V, !.err = a.err, !.p = @ \/ a.p], s |-> s1]

\* RemoveExpiredSubscription
RemoveExpired(S, c, blk, pi, pb, h) ==
  LET d == DelV(S.sv[c], blk, h) IN
  IF d.err THEN [S EXCEPT !.p = @ \/ d.p]
  ELSE LET r == PutV(S.pl[pi], pb, h) IN
       [S EXCEPT !.sv[c] = d.V, !.pl[pi] = r.V, !.p = @ \/ d.p \/ r.p, !.owed[c] = 0]

\* renewSubscription(sub) inside advanceMonth; s already has left = 0 and is saved.
\* Code after the F1 fix: nothing of the subscription and no plan reference changes before all checks passed.
Renew(S, c, s, ne, h, t) ==
  LET p  == s.auto
      nv == FindV(S.pl[p], h, h)
  IN IF nv = NONE THEN RemoveExpired(S, c, ne, s.pi, s.pb, h)
     ELSE LET price == PlanPrice(S, p, nv)
              s1 == [s EXCEPT !.pi = p, !.pb = nv, !.bought = @ + 1, !.left = 1, !.blk = h]
          IN IF S.bal[s.cr] < price
             THEN IF FixRenew THEN RemoveExpired(S, c, ne, s.pi, s.pb, h)
                  ELSE RemoveExpired(S, c, ne, s1.pi, s1.pb, h)      \* pre-fix: fields already overwritten
             ELSE LET S1 == [S EXCEPT !.bal[s.cr] = @ - price, !.mb = @ + price]
                      s2 == [s1 EXCEPT !.credit = @ + price]
                      ra == ResetAppend(S1, c, s2, h, FALSE, h, t)
                  IN IF ra.S.err THEN RemoveExpired([ra.S EXCEPT !.err = FALSE], c, ne, s1.pi, s1.pb, h)
                     ELSE IF FixRenew /\ (p # s.pi \/ nv # s.pb)
                     THEN LET r1 == PutV(ra.S.pl[s.pi], s.pb, h)
                              P1 == [ra.S.pl EXCEPT ![s.pi] = r1.V]
                              g  == GetV(P1[p], h)
                          IN [ra.S EXCEPT !.pl = [P1 EXCEPT ![p] = g.V], !.p = @ \/ r1.p, !.owed[c] = 1]
                     ELSE [ra.S EXCEPT !.owed[c] = 1]

\* advanceMonth timer callback of consumer c at height h, time t
AdvanceMonth(S, c, h, t) ==
  LET ne == CbNextEpoch(h)
      v  == SubAt(S, c, ne, h)
  IN IF v = NONE THEN S
     ELSE LET s0 == S.sv[c][v].d
              a  == AddCuTimer(S, c, ne, s0)
          IN IF a.S.p THEN a.S
             ELSE LET s == [a.s EXCEPT !.left = @ - 1]  S1 == a.S IN
             IF s.left > 0
             THEN LET ra == ResetAppend(S1, c, [s EXCEPT !.total = @ + 1], ne, FALSE, h, t)
                  IN [ra.S EXCEPT !.err = FALSE, !.owed[c] = IF @ > 0 THEN @ - 1 ELSE 0]
             ELSE IF s.fut.on
             THEN IF FindV(S1.pl[s.fut.pi], s.fut.pb, h) = NONE
                  THEN RemoveExpired(S1, c, ne, s.pi, s.pb, h)
                  ELSE LET s2 == [s EXCEPT !.cr = s.fut.cr, !.pi = s.fut.pi, !.pb = s.fut.pb,
                                           !.bought = s.fut.d, !.left = s.fut.d, !.total = 0,
                                           !.fut = NoFut, !.cuT = PlanCu(s.fut.pi), !.credit = s.fut.credit]
                           ra == ResetAppend(S1, c, s2, ne, FALSE, h, t)
                       IN [ra.S EXCEPT !.err = FALSE, !.owed[c] = s.fut.d]
             ELSE IF s.auto # "none"
             THEN Renew([S1 EXCEPT !.sv[c] = ModifyV(@, s.blk, s)], c, s, ne, h, t)
             ELSE RemoveExpired(S1, c, ne, s.pi, s.pb, h)

RECURSIVE SumF(_, _)
SumF(f, K) == IF K = {} THEN 0 ELSE LET k == CHOOSE x \in K : TRUE IN f[k] + SumF(f, K \ {k})

\* RewardAndResetCuTracker of consumer c at EndBlock of height h
Payout1(S, c, h) ==
  LET td == S.ct[<<h, c>>]
      S0 == [S EXCEPT !.ct = Rem(@, <<h, c>>)]
      keys == {k \in DOMAIN S.tcu : k[1] = c /\ k[3] = td.sblk}
      total == SumF(S.tcu, keys)
  IN IF total = 0
     THEN LET v == SubAt(S0, c, h, h) IN
          IF v # NONE
          THEN [S0 EXCEPT !.sv[c] = ModifyV(@, v, [@[v].d EXCEPT !.credit = @ + td.credit]),
                          !.pay = [NoPay EXCEPT !.credit = td.credit, !.returned = td.credit]]
          ELSE [S0 EXCEPT !.mb = @ - td.credit, !.pay = [NoPay EXCEPT !.credit = td.credit, !.topool = td.credit]]
     ELSE LET amt == IF td.credit \div total > LIMIT_PER_CU THEN LIMIT_PER_CU * total ELSE td.credit
              paid == SumF([k \in keys |-> (amt * S.tcu[k]) \div total], keys)
          IN [S0 EXCEPT !.tcu = RemS(@, keys), !.mb = @ - paid,
                        !.pay = [NoPay EXCEPT !.credit = td.credit, !.total = total, !.paid = paid]]
RECURSIVE PayoutAll(_, _, _)
PayoutAll(S, cs, h) == IF cs = {} THEN S
                       ELSE LET c == CHOOSE x \in cs : TRUE IN
                            PayoutAll(IF <<h, c>> \in DOMAIN S.ct THEN Payout1(S, c, h) ELSE S, cs \ {c}, h)
Payout(S, h) == PayoutAll(S, Consumers, h)

\* one block: EndBlock(h-1), BeginBlock(h) at time t.  Month timers fire in (expiry, consumer) order.
CRank(c) == IF c = "c1" THEN 1 ELSE 2
RECURSIVE FireMonths(_, _, _)
FireMonths(S, h, t) ==
  LET due == {x \in S.mt : x[1] <= t} IN
  IF due = {} \/ S.p THEN S
  ELSE LET x == CHOOSE y \in due : \A z \in due : y[1] < z[1] \/ (y[1] = z[1] /\ CRank(y[2]) <= CRank(z[2]))
       IN FireMonths(AdvanceMonth([S EXCEPT !.mt = @ \ {x}], x[2], h, t), h, t)

OneBlock(S, h, t) ==
  LET S1 == Payout(S, h - 1)
      tp == [p \in PlanIdx |-> TickV(S1.pl[p], h)]
      ts == [c \in Consumers |-> TickV(S1.sv[c], h)]
      S2 == [S1 EXCEPT !.pl = [p \in PlanIdx |-> tp[p].V], !.sv = [c \in Consumers |-> ts[c].V],
                       !.p = @ \/ (\E c \in Consumers : ts[c].p) \/ (\E p \in PlanIdx : tp[p].p)]
  IN IF S2.p THEN S2 ELSE FireMonths(S2, h, t)

\* heights in (h, hEnd] at which something is scheduled (long advances jump from one to the next); t = time at h,
\* every ordinary block adds BT time units, so a month timer e > t is due at height h + ceil((e - t) / BT)
Busy(S, h, t, hEnd) ==
  LET x0 == {k[1] + 1 : k \in DOMAIN S.ct}
           \cup UNION {UNION {{S.pl[p][v].del, S.pl[p][v].stale} : v \in DOMAIN S.pl[p]} : p \in PlanIdx}
           \cup UNION {UNION {{S.sv[c][v].del, S.sv[c][v].stale, v} : v \in DOMAIN S.sv[c]} : c \in Consumers}
           \cup {h + ((x[1] - t + BT - 1) \div BT) : x \in {y \in S.mt : y[1] > t}}
  IN {x \in x0 : x > h /\ x <= hEnd}
RECURSIVE Blocks(_, _, _, _)
Blocks(S, h, t, n) ==    \* n ordinary blocks starting after height h / time t
  IF n = 0 \/ S.p THEN S
  ELSE LET b == Busy(S, h, t, h + n) IN
       IF b = {} THEN S
       ELSE LET x == Min(b)  tx == t + (x - h) * BT IN Blocks(OneBlock(S, x, tx), x, tx, n - (x - h))

-----------------------------------------------------------------------------
(* Transactions (atomic: on S.err nothing is installed) *)
NewSub(cr, p, v, au) ==
  [pi |-> p, pb |-> v, cr |-> cr, bought |-> 0, left |-> 0, total |-> 0, cuT |-> PlanCu(p), cuL |-> PlanCu(p),
   credit |-> 0, auto |-> IF au THEN p ELSE "none", fut |-> NoFut, exp |-> 0, blk |-> now]

\* upgradeSubscriptionPlan
Upgrade(S, c, s, p, v, h, t) ==
  LET ne == NextEpoch(h) IN
  IF s.blk = ne THEN [S |-> Fail(S), s |-> s]
  ELSE IF FindV(S.pl[s.pi], s.pb, h) = NONE THEN [S |-> Fail(S), s |-> s]
  ELSE IF PlanPrice(S, p, v) < PlanPrice(S, s.pi, s.pb) THEN [S |-> Fail(S), s |-> s]
  ELSE LET a == AddCuTimer(S, c, h, s) IN
       IF a.S.p THEN [S |-> a.S, s |-> s]
       ELSE LET s1 == [a.s EXCEPT !.total = 0, !.left = 0, !.pi = p, !.pb = v, !.cuT = PlanCu(p), !.credit = 0]
            IN ResetAppend(a.S, c, s1, ne, TRUE, h, t)

BuyTx(cr, c, p, d, au) ==
  LET h == now  t == tm  ne == NextEpoch(now)
      g == GetV(pl[p], h)
      S0 == [Cur EXCEPT !.pl[p] = g.V]
      v == SubAt(S0, c, ne, h)
  IN IF g.v = NONE THEN Fail(Cur)
     ELSE
     LET isNew == v = NONE
         \* createNewSubscription -> CreateAdminProject fails while the admin project of a subscription that
         \* expired in this epoch still exists (both are deleted at the next epoch)
         pre == IF isNew THEN [S |-> IF SubAt(S0, c, h, h) # NONE THEN Fail(S0) ELSE S0, s |-> NewSub(cr, p, g.v, au)]
                ELSE LET s == S0.sv[c][v].d IN
                     IF p # s.pi
                     THEN IF s.cr # cr /\ cr # c THEN [S |-> Fail(S0), s |-> s]
                          ELSE Upgrade(S0, c, s, p, g.v, h, t)
                     ELSE IF g.v # s.pb THEN [S |-> Fail(S0), s |-> s]
                     ELSE [S |-> S0, s |-> s]
     IN IF pre.S.err \/ pre.S.p THEN pre.S
        ELSE IF ~isNew /\ pre.s.left + d > MAXDUR + 1 THEN Fail(pre.S)
        ELSE LET price == FullPrice(PlanPrice(pre.S, p, g.v), p, d)
                 s1 == [pre.s EXCEPT !.bought = d, !.left = @ + d, !.credit = @ + price]
             IN IF s1.left > MAXDUR + 1 \/ d > MAXDUR THEN Fail(pre.S)
                ELSE LET S1 == IF isNew
                               THEN LET s2 == [s1 EXCEPT !.exp = NextMonth(t), !.blk = h]
                                        a == AppendV(pre.S.sv[c], h, s2, h)
                                    IN [pre.S EXCEPT !.sv[c] = a.V, !.err = a.err, !.p = @ \/ a.p, !.mt = @ \cup {<<NextMonth(t), c>>}]
                               ELSE [pre.S EXCEPT !.sv[c] = ModifyV(@, s1.blk, s1)]
                     IN IF S1.err \/ S1.p THEN S1
                        ELSE IF S1.bal[cr] < price THEN Fail(S1)
                        ELSE [S1 EXCEPT !.bal[cr] = @ - price, !.mb = @ + price,
                                        !.owed[c] = IF isNew \/ p # S0.sv[c][v].d.pi THEN d ELSE @ + d]

AdvTx(cr, c, p, d) ==
  LET h == now  ne == NextEpoch(now)
      g == GetV(pl[p], h)
      S0 == [Cur EXCEPT !.pl[p] = g.V]
      v == SubAt(S0, c, ne, h)
  IN IF g.v = NONE \/ d > MAXDUR \/ v = NONE THEN Fail(Cur)
     ELSE LET s == S0.sv[c][v].d
              np == FullPrice(PlanPrice(S0, p, g.v), p, d)
              charge == IF s.fut.on THEN np - s.fut.credit ELSE np
          IN IF s.fut.on /\ (FindV(S0.pl[s.fut.pi], s.fut.pb, h) = NONE \/ np <= s.fut.credit) THEN Fail(S0)
             ELSE IF S0.bal[cr] < charge THEN Fail(S0)
             ELSE [S0 EXCEPT !.bal[cr] = @ - charge, !.mb = @ + charge,
                             !.sv[c] = ModifyV(@, s.blk, [s EXCEPT !.fut = [on |-> TRUE, cr |-> cr, pi |-> p, pb |-> g.v,
                                                                            d |-> d, credit |-> np]])]

AutoTx(cr, c, en, p) ==
  LET h == now
      v == SubAt(Cur, c, h, h)
  IN IF v = NONE THEN Fail(Cur)
     ELSE LET s == sv[c][v].d
              idx == IF p = "" THEN s.pi ELSE p
          IN IF cr # c /\ cr # s.cr THEN Fail(Cur)
             ELSE IF ~en /\ s.auto = "none" THEN Fail(Cur)
             ELSE IF en /\ FindV(pl[idx], h, h) = NONE THEN Fail(Cur)
             ELSE LET a == AppendV(sv[c], s.blk, [s EXCEPT !.cr = cr, !.auto = IF en THEN idx ELSE "none"], h)
                  IN [Cur EXCEPT !.sv[c] = a.V, !.err = a.err, !.p = a.p]

PlanAddTx(p, price) ==
  LET a == AppendV(pl[p], now, [price |-> price], now) IN
  [Cur EXCEPT !.pl[p] = a.V, !.err = a.err, !.p = a.p]
PlanDelTx(p) ==
  LET d == DelV(pl[p], NextEpoch(now), now) IN
  [Cur EXCEPT !.pl[p] = d.V, !.err = d.err, !.p = d.p]

\* relay payment of cu by provider pv for consumer c: tracked under the block of the subscription version found for
\* the current epoch start; the subscription's month CU is charged with the relay's CU (never below zero); the tracked
\* CU is the CU after QoS influence, truncated: a report scoring 0 with the default QoS weight 0.5 halves it
\* (1 CU -> 0 tracked CU; the tracker entry is created even for 0)
RelayTx(pv, c, cu, bad) ==
  LET h == now
      eps == (h \div EB) * EB
      v == SubAt(Cur, c, eps, h)
  IN IF v = NONE THEN Fail(Cur)
     ELSE LET s == sv[c][v].d
              k == <<c, pv, s.blk>>
              tr == IF bad THEN cu \div 2 ELSE cu
          IN [Cur EXCEPT !.sv[c] = ModifyV(@, v, [s EXCEPT !.cuL = IF @ < cu THEN 0 ELSE @ - cu]),
                         !.tcu = Upd(@, k, (IF k \in DOMAIN tcu THEN tcu[k] ELSE 0) + tr)]

\* a buyer spends tokens elsewhere (bank send): the way renewals and purchases run out of funds
DrainTx(cr, keep) == IF bal[cr] <= keep THEN Fail(Cur) ELSE [Cur EXCEPT !.bal[cr] = keep]

Record(r) == hist' = IF GenHist THEN Append(hist, r) ELSE hist
Rec(a, cr, c, p, d, f, n) == [a |-> a, cr |-> cr, c |-> c, p |-> p, d |-> d, f |-> f, n |-> n]

\* a transaction: on error or panic the state is unchanged (baseapp semantics)
Tx(S, r) == /\ ~panicked
            /\ GenBias => (~S.err \/ RandomElement(1..12) = 1)   \* generator: mostly accepted txs
            /\ IF S.err \/ S.p THEN UNCHANGED <<pl, sv, mt, ct, tcu, bal, mb, pay, owed>> ELSE Install(S)
            /\ UNCHANGED <<now, tm, nmonths, panicked>>
            /\ Record(r)

Buy(cr, c, p, d, au)  == Tx(BuyTx(cr, c, p, d, au), Rec("buy", cr, c, p, d, au, 0))
BuyAdvance(cr, c, p, d) == Tx(AdvTx(cr, c, p, d), Rec("adv", cr, c, p, d, FALSE, 0))
AutoRenew(cr, c, en, p) == Tx(AutoTx(cr, c, en, p), Rec("auto", cr, c, p, 0, en, 0))
PlanAdd(p, n)      == Tx(PlanAddTx(p, BasePrice(p) + 10 * n), Rec("planadd", "", "", p, 0, FALSE, n))
PlanDel(p)         == Tx(PlanDelTx(p), Rec("plandel", "", "", p, 0, FALSE, 0))
Relay(pv, c, cu, bad) == Tx(RelayTx(pv, c, cu, bad), Rec("relay", pv, c, "", cu, bad, 0))
Drain(cr, keep)    == Tx(DrainTx(cr, keep), Rec("drain", cr, "", "", keep, FALSE, 0))

Adv(S, n, r) == /\ ~panicked
                /\ Install(S) /\ panicked' = S.p
                /\ now' = now + n /\ tm' = tm + n * BT
                /\ UNCHANGED nmonths
                /\ Record(r)
Block == Adv(Blocks(Cur, now, tm, 1), 1, Rec("block", "", "", "", 0, FALSE, 1))
Epoch == LET n == NextEpoch(now) - now IN Adv(Blocks(Cur, now, tm, n), n, Rec("epoch", "", "", "", 0, FALSE, n))
Stale == LET n == NextEpoch(now + StaleP) - now IN Adv(Blocks(Cur, now, tm, n), n, Rec("stale", "", "", "", 0, FALSE, n))
\* one block whose time is the earliest month expiry (of any consumer).  Environment assumption: an epoch is
\* shorter than a month, i.e. no subscription version is still waiting for the next epoch.
Month == /\ ~panicked /\ mt # {} /\ nmonths < MaxMonths
         /\ \A c \in Consumers : \A v \in DOMAIN sv[c] : v <= now
         /\ LET t == Min({x[1] : x \in mt})
                S == OneBlock(Cur, now + 1, t)
            IN /\ t > tm
               /\ Install(S) /\ panicked' = S.p
               /\ now' = now + 1 /\ tm' = t /\ nmonths' = nmonths + 1
               /\ Record(Rec("month", "", "", "", 0, FALSE, 1))

Init == /\ now = EB /\ tm = 0
        /\ pl = [p \in PlanIdx |-> <<>>] /\ sv = [c \in Consumers |-> <<>>] /\ mt = {} /\ ct = <<>> /\ tcu = <<>>
        /\ bal = [b \in Buyers |-> StartBal(b)]
        /\ mb = 0 /\ pay = NoPay /\ owed = [c \in Consumers |-> 0] /\ nmonths = 0 /\ panicked = FALSE /\ nops = 0 /\ hist = <<>>

CreatorsOf(c) == {c} \cup ThirdParty
Ops == \/ ("planadd" \in Acts /\ \E p \in PlanIdx, n \in PriceVar : PlanAdd(p, n))
       \/ ("plandel" \in Acts /\ \E p \in PlanIdx : PlanDel(p))
       \/ ("buy" \in Acts /\ \E c \in Consumers : \E cr \in CreatorsOf(c), p \in PlanIdx, d \in Durs, au \in BOOLEAN : Buy(cr, c, p, d, au))
       \/ ("adv" \in Acts /\ \E c \in Consumers : \E cr \in CreatorsOf(c), p \in PlanIdx, d \in Durs : BuyAdvance(cr, c, p, d))
       \/ ("auto" \in Acts /\ \E c \in Consumers : \E cr \in CreatorsOf(c), en \in BOOLEAN, p \in PlanIdx \cup {""} : AutoRenew(cr, c, en, p))
       \/ (WithDrain /\ \E cr \in Buyers : Drain(cr, 50))
       \/ ("relay" \in Acts /\ \E c \in Consumers, bad \in BOOLEAN : Relay("v1", c, 1, bad))
       \/ ("block" \in Acts /\ Block) \/ ("epoch" \in Acts /\ Epoch) \/ ("stale" \in Acts /\ Stale) \/ Month
Next == nops < MaxOps /\ nops' = nops + 1 /\ Ops
Spec == Init /\ [][Next]_vars

-----------------------------------------------------------------------------
\* Generator: one random parameter choice per action kind (each draw bound once)
One(S) == {RandomElement(S)}
HasFutSet == {c \in Consumers : LET v == FindV(sv[c], NextEpoch(now), now) IN v # NONE /\ sv[c][v].d.fut.on}
GenNext ==
  /\ nops < MaxOps /\ nops' = nops + 1
  /\ \/ (RandomElement(1..2) = 1 /\ \E p \in One(PlanIdx), n \in One(PriceVar) : PlanAdd(p, n))
     \/ (RandomElement(1..3) = 1 /\ \E p \in One(PlanIdx) : PlanDel(p))
     \/ \E c \in One(Consumers) : \E cr \in One(CreatorsOf(c) \cup {c}), p \in One(PlanIdx), d \in One(Durs \cup {1}), au \in One(BOOLEAN) : Buy(cr, c, p, d, au)
     \/ \E c \in One(Consumers) : \E cr \in One(CreatorsOf(c)), p \in One(PlanIdx), d \in One(Durs) : BuyAdvance(cr, c, p, d)
     \/ \E c \in One(Consumers) : \E cr \in One(CreatorsOf(c)), en \in One(BOOLEAN), p \in One(PlanIdx \cup {""}) : AutoRenew(cr, c, en, p)
     \* replacement of a pending advance purchase (own generator kind, otherwise rare)
     \/ (HasFutSet # {} /\ \E c \in One(HasFutSet) : \E p \in One(PlanIdx), d \in One(Durs) : BuyAdvance(c, c, p, d))
     \/ (WithDrain /\ RandomElement(1..4) = 1 /\ \E cr \in One(Buyers), k \in One({0, 50, 120}) : Drain(cr, k))
     \/ (RandomElement(1..2) = 1 /\ Block) \/ (RandomElement(1..2) = 1 /\ Epoch) \/ (RandomElement(1..2) = 1 /\ Stale)
     \/ Month
     \/ (WithRelay /\ \E pv \in One(Providers), c \in One(Consumers), cu \in One({10, 70, 150, 400}), bad \in One({FALSE, FALSE, TRUE}) : Relay(pv, c, cu, bad))
     \/ (WithRelay /\ \E pv \in One(Providers), c \in One(Consumers), cu \in One({1, 1, 10, 70}), bad \in One(BOOLEAN) : Relay(pv, c, cu, bad))
Emit == nops < MaxOps \/ PrintT(<<"BEH", ToJson(hist)>>)
NoHistView == <<now, tm, pl, sv, mt, ct, tcu, bal, mb, pay, owed, nmonths, panicked, nops>>

-----------------------------------------------------------------------------
\* Properties
CurV(c) == FindV(sv[c], now, now)
SubOn(c) == CurV(c) # NONE
CurSub(c) == sv[c][CurV(c)].d

\* C13: the plan version of every live subscription can be looked up; no chain halt
PlanAvailable == \A c \in Consumers : SubOn(c) => FindV(pl[CurSub(c).pi], CurSub(c).pb, now) # NONE
NoPanic == ~panicked
\* C13 ghost: every plan version carries at least one reference per holder.  Holders = subscriptions whose newest
\* version (not marked for removal) points to it, advance purchases recorded on such a version, and the "latest" flag.
NewestV(c) == IF DOMAIN sv[c] = {} THEN NONE ELSE Max(DOMAIN sv[c])
Holds(c, p, v) == LET n == NewestV(c) IN
                  IF n = NONE \/ sv[c][n].del < INF THEN 0
                  ELSE (IF sv[c][n].d.pi = p /\ sv[c][n].d.pb = v THEN 1 ELSE 0)
                       + (IF sv[c][n].d.fut.on /\ sv[c][n].d.fut.pi = p /\ sv[c][n].d.fut.pb = v THEN 1 ELSE 0)
Holders(p, v) == SumF([c \in Consumers |-> Holds(c, p, v)], Consumers) + (IF pl[p][v].latest THEN 1 ELSE 0)
RefsCoverHolders == \A p \in PlanIdx : \A v \in DOMAIN pl[p] : pl[p][v].ref >= Holders(p, v)
HeldVersionsExist == \A c \in Consumers : LET n == NewestV(c) IN
                     (n # NONE /\ sv[c][n].del = INF) => sv[c][n].d.pb \in DOMAIN pl[sv[c][n].d.pi]
\* Coverage target (reachability query, used to let TLC construct a history): an auto-renewal that would move to
\* another plan version fails for lack of funds while another consumer still holds the old version
Target == \E c \in Consumers, o \in Consumers :
            /\ Len(hist) > 0 /\ hist[Len(hist)].a = "month"      \* (needs GenHist) reached by the failing month tick itself
            /\ c # o /\ NewestV(c) # NONE
            /\ LET e == sv[c][NewestV(c)]  s == e.d IN
                 /\ e.del < INF /\ s.left = 0 /\ s.auto # "none"
                 /\ LET lv == FindV(pl[s.auto], now, now) IN lv # NONE /\ (s.auto # s.pi \/ lv # s.pb)
                 /\ Holds(o, s.pi, s.pb) >= 1
NoTarget == ~Target
\* second coverage target: an advance purchase accepted while the subscription version that lives on is still waiting
\* for the next epoch (after an upgrade)
Target2 == /\ Len(hist) > 0 /\ hist[Len(hist)].a = "adv"
           /\ \E c \in Consumers : \E v \in DOMAIN sv[c] : v > now /\ sv[c][v].d.fut.on
NoTarget2 == ~Target2
\* third coverage target (C11): a month whose tracked-CU entries exist but sum up to 0 is waiting for its payout
Target3 == \E k \in DOMAIN ct : LET keys == {x \in DOMAIN tcu : x[1] = k[2] /\ x[3] = ct[k].sblk} IN
                                  keys # {} /\ SumF(tcu, keys) = 0
NoTarget3 == ~Target3
\* C12
CuBounded == \A c \in Consumers : SubOn(c) => (CurSub(c).cuL >= 0 /\ CurSub(c).cuL <= CurSub(c).cuT)
\* (a subscription whose removal is pending until the next epoch may show left = 0)
LeftPositive == \A c \in Consumers : (SubOn(c) /\ sv[c][CurV(c)].del = INF) => CurSub(c).left >= 1
TypeOK == /\ now >= EB /\ mb >= 0 /\ \A b \in Buyers : bal[b] >= 0
=============================================================================
