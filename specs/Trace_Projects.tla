--------------------------- MODULE Trace_Projects ---------------------------
(* Validation of traces recorded from the real chain by harness/t/payments (variant "proj", VERIF_KEYS=1).
   Every line carries, for every epoch start of the chain's memory window and the next epoch: the
   developer-key registry (GetProjectDeveloperData) and every existing project version
   (GetProjectForBlock: developer keys, admin keys, UsedCu, enabled).

   VERIF_MODE = "obs"  : the C17 formulas of Projects.tla (KeysOK, ChargeOK, ResolveOK) are evaluated by
                         TLC on the REAL projections (state + step); violation = statement about the code.
   VERIF_MODE = "conf" : the model takes the logged action and its projection must equal the logged one
                         (drift only). *)
EXTENDS Projects, IOUtils
VARIABLES l, wv, dmv, pav       \* logged window (sequence of epochs), registry rows, project versions
Trace == ndJsonDeserialize(IOEnv.VERIF_TRACE)
Mode == IOEnv.VERIF_MODE
tvars == <<vars, l, wv, dmv, pav>>

ToSet(s) == {s[i] : i \in 1..Len(s)}
KeyOrder == <<"c1", "c2", "k1", "k2", "k3">>
Idx(w, b) == CHOOSE i \in 1..Len(w) : w[i] = b
DMof(w, dm, b) == [k \in Keys |-> dm[Idx(w, b)][CHOOSE j \in 1..5 : KeyOrder[j] = k]]
PAof(pa, b) == {[p |-> r.p, dev |-> ToSet(r.dev), adm |-> ToSet(r.adm), used |-> r.used, en |-> r.en] : r \in {x \in ToSet(pa) : x.b = b /\ x.p \in ProjNames}}

LastOf(r) == IF r.ev = "pay" /\ Len(r.rs) = 1
             THEN [ev |-> "pay", ok |-> r.ok, proj |-> IF r.ok THEN r.rs[1].proj ELSE "-", cu |-> r.rs[1].cu, e |-> r.rs[1].e, key |-> r.rs[1].sg]
             ELSE [ev |-> r.ev, ok |-> r.ok, proj |-> "-", cu |-> 0, e |-> 0, key |-> "-"]

Logged(r) == wv' = r.st.window /\ dmv' = r.st.devmap /\ pav' = r.st.projects

TInit == Init /\ l = 1 /\ Trace[1].ev = "reset"
         /\ wv = Trace[1].st.window /\ dmv = Trace[1].st.devmap /\ pav = Trace[1].st.projects
Reset(r) == /\ r.ev = "reset" /\ Logged(r)
            /\ cur' = 0 /\ pv' = [P \in ProjNames |-> CASE P = "c1/adm" -> P0({"c1"}, TRUE) [] P = "c1/low" -> P0({"k1"}, TRUE)
                                        [] P = "c1/dis" -> P0({"k3"}, FALSE) [] P = "c2/adm" -> P0({"c2"}, TRUE) [] OTHER -> {}]
            /\ dk' = [k \in Keys |-> CASE k = "c1" -> D0("c1/adm") [] k = "k1" -> D0("c1/low") [] k = "k3" -> D0("c1/dis")
                                  [] k = "c2" -> D0("c2/adm") [] OTHER -> {}]
            /\ last' = MkLast("reset", TRUE, "-", 0, 0) /\ nops' = 0 /\ hist' = <<>>
ObsStep(r) == /\ r.ev # "reset" /\ Logged(r)
              /\ last' = LastOf(r) /\ cur' = r.st.cur
              /\ UNCHANGED <<pv, dk, hist>> /\ nops' = nops + 1

ConfAct(r) ==
  CASE r.ev = "pay"     -> Relay(r.rs[1].sg, r.rs[1].e, r.rs[1].cu, r.rs[1].ss)
    [] r.ev = "epoch"   -> NextEpoch
    [] r.ev = "addproj" -> AddProject(r.sub, r.v, r.key, r.kd)
    [] r.ev = "delproj" -> DelProject(r.sub, r.v)
    [] r.ev = "addkey"  -> AddKeys(r.v, r.by, r.key, r.kd)
    [] r.ev = "delkey"  -> DelKeys(r.v, r.by, r.key, r.kd)
    [] OTHER -> FALSE
ConfMatch(r) ==
  /\ last'.ok = r.ok
  /\ cur' = r.st.cur
  /\ \A b \in ToSet(r.st.window) : /\ DevMap(dk', b) = DMof(r.st.window, r.st.devmap, b)
                                   /\ ProjAt(pv', b) = PAof(r.st.projects, b)
ConfStep(r) == r.ev # "reset" /\ ConfAct(r) /\ ConfMatch(r) /\ Logged(r) /\ nops' = nops + 1

TNext == /\ l < Len(Trace) /\ l' = l + 1
         /\ LET r == Trace[l + 1] IN
              \/ Reset(r)
              \/ (Mode = "obs" /\ ObsStep(r))
              \/ (Mode = "conf" /\ ConfStep(r))
TSpec == TInit /\ [][TNext]_tvars

\* ---- the C17 formulas on the real projections
C17_TKeys == \A b \in ToSet(wv) : KeysOK(DMof(wv, dmv, b), PAof(pav, b))
BeforeT(b) == PAof(pav, b)
AfterT(b) == PAof(pav', b)
C17_TCharge == ChargeOK(last', ToSet(wv) \cap ToSet(wv'), BeforeT, AfterT)
C17_TChargeProp == [][C17_TCharge]_tvars
C17_TResolve == (last'.ev = "pay" /\ last'.ok /\ last'.e \in ToSet(wv')) => ResolveOK(last', DMof(wv', dmv', last'.e))
C17_TResolveProp == [][C17_TResolve]_tvars
\* a failed transaction changes nothing in the projection
C17_TFail == (last'.ev \in {"pay", "addproj", "delproj", "addkey", "delkey"} /\ ~last'.ok) => (dmv' = dmv /\ pav' = pav)
C17_TFailProp == [][C17_TFail]_tvars

Post == LET d == TLCGet("stats").diameter IN PrintT(<<"HWM", d>>) /\ d = Len(Trace)
=============================================================================
