CONSTANTS
  Epochs = {1, 2, 3, 4}
  Sess = {11, 21, 12}
  MaxCu = 3
  Window = 1
  MaxRetries = 3
  MaxOps = 16
  AtomicSave = TRUE
  MaxCalls = 0
  GenHist = TRUE
INIT Init
NEXT GenNext
INVARIANTS Emit
CHECK_DEADLOCK FALSE
