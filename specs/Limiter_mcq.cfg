CONSTANTS
  Scenarios <- ScnQuick
  FixF10 = FALSE
  GenHist = FALSE
INIT Init
NEXT Next
INVARIANTS Bounded AtMostOnce OkMeansRan NoForeignResult ErrMeansNotRunModF10 Released Counters
CHECK_DEADLOCK TRUE
