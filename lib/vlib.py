"""Shared machinery of the lava TLA+ verification framework.

Pipeline stages (DESIGN.md section 2):
  M  tlc_mc()     exhaustive TLC run of a spec config (design-level result, state counts)
  G  tlc_sim()    TLC -simulate emitting behaviours (history variable printed as JSON)
  R  harness()    Go driver built from /repo's working tree (-tags verif) replays them into
                  the real code and records the projected state after every step
  V  tlc_trace()  TLC validates the recorded real trace against Trace_*.tla (Obs / Conf mode)

Verdict rules (DESIGN.md 2.4): exit 0 held; exit 1 + VIOLATION line (reproduced on real code);
exit 2 = infrastructure problem (never a violation).
"""
import hashlib
import json
import os
import re
import shutil
import subprocess
import sys
import time

VERIF = os.path.dirname(os.path.dirname(os.path.abspath(__file__)))
REPO = os.environ.get("VERIF_REPO", "/repo")
SPECS = os.path.join(VERIF, "specs")
HARNESS = os.path.join(VERIF, "harness")
WORK = os.environ.get("VERIF_WORK", os.path.join(VERIF, "work"))
BUILD = os.path.join(VERIF, "build")
EVIDENCE = os.environ.get("VERIF_EVIDENCE", os.path.join(VERIF, "evidence"))
REPLAYS = os.path.join(EVIDENCE, "replay")
NCPU = os.cpu_count() or 4

GOENV = {
    "GOFLAGS": "-mod=mod",
    "GOPROXY": "off",
    "GOSUMDB": "off",
    "GOTOOLCHAIN": "local",
    "GONOSUMCHECK": "1",
    "GONOSUMDB": "*",
}


class Infra(Exception):
    """Anything that is not evidence about lava (exit 2)."""


def env_with(extra=None):
    e = dict(os.environ)
    e.update(GOENV)
    if extra:
        e.update({k: str(v) for k, v in extra.items()})
    return e


def log(*a):
    print("[verif]", *a, file=sys.stderr, flush=True)


# ----------------------------------------------------------------------------------------------
# context / evidence
# ----------------------------------------------------------------------------------------------
class Ctx:
    def __init__(self, pid, tier, seed, level="model_checking"):
        self.pid = pid
        self.tier = tier
        self.seed = seed
        self.level = level
        self.t0 = time.time()
        self.work = os.path.join(WORK, pid)
        if os.path.isdir(self.work):
            shutil.rmtree(self.work, ignore_errors=True)
        os.makedirs(self.work, exist_ok=True)
        os.makedirs(EVIDENCE, exist_ok=True)
        self.cov = {
            "states": 0,
            "transitions": 0,
            "traces_validated_against_impl": 0,
            "evaluations": 0,
            "distinct_nontrivial": 0,
            "samples": [],
            "rule": "",
            "tlc_runs": [],
        }
        self.assumptions = []
        self.violations = []  # list of dict(signature, what, replay)
        self.known = []
        self.drift = []
        self.notes = []

    @property
    def quick(self):
        return self.tier == "quick"

    def pick(self, quick, thorough):
        return quick if self.quick else thorough

    def add_mc(self, name, res):
        self.cov["states"] += res["distinct"]
        self.cov["transitions"] += res["generated"]
        self.cov["tlc_runs"].append(
            {"cfg": name, "distinct_states": res["distinct"], "states_generated": res["generated"],
             "depth": res.get("depth"), "wall_s": round(res["wall_s"], 1),
             "exhaustive": res.get("exhaustive", True)})

    def sample(self, s, limit=4):
        if len(self.cov["samples"]) < limit:
            self.cov["samples"].append(s)

    def violation(self, signature, what, replay_obj):
        """Record a reproduced violation. replay_obj is written to evidence/replay/."""
        os.makedirs(REPLAYS, exist_ok=True)
        h = hashlib.sha256(json.dumps(replay_obj, sort_keys=True).encode()).hexdigest()[:12]
        path = os.path.join(REPLAYS, "%s-%s.json" % (self.pid, h))
        with open(path, "w") as f:
            json.dump(replay_obj, f, indent=1, sort_keys=True)
        self.violations.append({"signature": signature, "what": what, "replay": path})

    def finish(self):
        kf = load_known_findings(self.pid)
        unknown = []
        seen_known = {}
        for v in self.violations:
            m = match_known(kf, v["signature"])
            if m is not None:
                seen_known.setdefault(m["id"], (m, v))
            else:
                unknown.append(v)
        for fid, (m, v) in sorted(seen_known.items()):
            print("KNOWN-FINDING: property=%s %s [%s] witness=%s" % (self.pid, m["what"], fid, v["replay"]))
        self.cov["tlc_runs"] = self.cov["tlc_runs"][:40]
        ev = {
            "property_id": self.pid,
            "tier": self.tier,
            "seed": self.seed,
            "level": self.level,
            "coverage": self.cov,
            "assumptions": self.assumptions,
            "wall_s": round(time.time() - self.t0, 2),
            "violations": len(unknown),
            "known_findings_seen": sorted(seen_known.keys()),
            "drift": self.drift[:20],
            "notes": self.notes[:40],
        }
        if not ev["coverage"]["samples"]:
            ev["coverage"]["samples"] = ["(none recorded)"]
        with open(os.path.join(EVIDENCE, self.pid + ".json"), "w") as f:
            json.dump(ev, f, indent=1, sort_keys=True, default=str)
        if unknown:
            # one line per distinct signature
            done = set()
            for v in unknown:
                if v["signature"] in done:
                    continue
                done.add(v["signature"])
                print("VIOLATION property=%s replay=%s" % (self.pid, v["replay"]))
                print("  what: %s" % v["what"])
                print("  signature: %s" % v["signature"])
            return 1
        print("OK property=%s tier=%s seed=%d states=%d transitions=%d impl_traces=%d wall=%.1fs" % (
            self.pid, self.tier, self.seed, self.cov["states"], self.cov["transitions"],
            self.cov["traces_validated_against_impl"], time.time() - self.t0))
        return 0


def load_known_findings(pid):
    files = [os.path.join(VERIF, "known_findings.json")]
    dd = os.path.join(VERIF, "known_findings.d")
    if os.path.isdir(dd):
        files += [os.path.join(dd, n) for n in sorted(os.listdir(dd)) if n.endswith(".json")]
    res = []
    for p in files:
        if not os.path.exists(p):
            continue
        with open(p) as f:
            data = json.load(f)
        res += [e for e in data.get("findings", []) if e.get("property") == pid and e.get("status") == "open"]
    return res


def match_known(kf, signature):
    for e in kf:
        pat = e.get("signature_regex")
        if pat is not None and re.fullmatch(pat, signature):
            return e
        if e.get("signature") == signature:
            return e
    return None


# ----------------------------------------------------------------------------------------------
# TLC
# ----------------------------------------------------------------------------------------------
_STATES_RE = re.compile(r"(\d+) states generated, (\d+) distinct states found, (\d+) states left on queue")
_DEPTH_RE = re.compile(r"The depth of the complete state graph search is (\d+)")
_SIMSTAT_RE = re.compile(r"The number of states generated: (\d+)")


def _tlc_cmd(module, cfg, metadir, workers, extra):
    return ["tlc", "-noGenerateSpecTE", "-workers", str(workers), "-metadir", metadir,
            "-config", cfg] + list(extra) + [module]


def _prep_specdir(ctx, tag):
    """TLC litters the spec directory; run in a scratch copy of specs/."""
    d = os.path.join(ctx.work, "tlc_" + tag)
    if os.path.isdir(d):
        shutil.rmtree(d)
    shutil.copytree(SPECS, d)
    return d


TIMEOUT_SCALE = float(os.environ.get("VERIF_TIMEOUT_SCALE", "1"))


def _run_tlc(ctx, tag, module, cfg, workers, timeout, extra, env=None, java_opts=None):
    timeout = timeout * TIMEOUT_SCALE
    d = _prep_specdir(ctx, tag)
    meta = os.path.join(d, "_meta")
    cmd = _tlc_cmd(module, cfg, meta, workers, extra)
    e = env_with(env)
    jo = "-Xss256m"
    if os.environ.get("VERIF_TLC_XMX"):
        jo += " -Xmx" + os.environ["VERIF_TLC_XMX"]
    if java_opts:
        jo += " " + java_opts
    e["JAVA_TOOL_OPTIONS"] = (e.get("JAVA_TOOL_OPTIONS", "") + " " + jo).strip()
    t0 = time.time()
    outp = os.path.join(ctx.work, "tlc_%s.out" % tag)
    with open(outp, "w") as fo:
        try:
            p = subprocess.run(cmd, cwd=d, env=e, stdout=fo, stderr=subprocess.STDOUT, timeout=timeout)
            rc = p.returncode
        except subprocess.TimeoutExpired:
            subprocess.run(["pkill", "-f", meta], check=False)
            raise Infra("TLC timeout (%ss) on %s/%s" % (timeout, module, cfg))
    wall = time.time() - t0
    with open(outp, errors="replace") as f:
        out = f.read()
    shutil.rmtree(meta, ignore_errors=True)
    res = {"rc": rc, "out": out, "wall_s": wall, "dir": d, "outfile": outp,
           "generated": 0, "distinct": 0, "queue": 0, "depth": None}
    ms = _STATES_RE.findall(out)
    if ms:
        g, dd, q = ms[-1]
        res.update(generated=int(g), distinct=int(dd), queue=int(q))
    m = _DEPTH_RE.search(out)
    if m:
        res["depth"] = int(m.group(1))
    res["violated"] = _violated(out)
    if "java.lang.OutOfMemoryError" in out or "StackOverflowError" in out:
        raise Infra("TLC JVM resource error on %s/%s (see %s)" % (module, cfg, outp))
    return res


def _violated(out):
    """Name of violated invariant / property, 'deadlock', 'postcondition' or None."""
    m = re.search(r"Error: Invariant (\S+) is violated", out)
    if m:
        return "invariant:" + m.group(1)
    m = re.search(r"Error: Action property (\S+) is violated", out)
    if m:
        return "action:" + m.group(1)
    m = re.search(r"Error: Temporal properties were violated", out)
    if m:
        return "temporal"
    if "Deadlock reached" in out:
        return "deadlock"
    m = re.search(r"Error: .*[Pp]ostcondition", out)
    if m:
        return "postcondition"
    if re.search(r"Error: Assumption .* is false", out):
        return "assumption"
    return None


def tlc_errors(out):
    """Non-violation TLC errors (parse/semantic/eval errors)."""
    errs = []
    for line in out.splitlines():
        if line.startswith("Error:") and not re.search(
                r"Invariant \S+ is violated|Action property|behavior up to this point|Temporal properties|"
                r"Deadlock reached|ostcondition|The following behavior", line):
            errs.append(line)
    return errs


def tlc_mc(ctx, module, cfg, workers=None, timeout=600, extra=(), env=None, tag=None,
           expect_violation=False, coverage=False, java_opts=None):
    """Exhaustive run. Returns result dict; raises Infra on tool failure.
    A violated invariant on the *spec* is returned (res['violated']) - never a verdict by itself."""
    workers = workers or int(os.environ.get("VERIF_TLC_WORKERS", NCPU))
    tag = tag or (module + "_" + os.path.splitext(os.path.basename(cfg))[0])
    ex = list(extra)
    if coverage:
        ex += ["-coverage", "1"]
    res = _run_tlc(ctx, tag, module, cfg, workers, timeout, ex, env, java_opts)
    errs = tlc_errors(res["out"])
    if res["violated"] is None and (res["rc"] != 0 or errs):
        raise Infra("TLC failed on %s/%s rc=%s: %s (see %s)" % (module, cfg, res["rc"], errs[:3], res["outfile"]))
    if res["violated"] is None and res["distinct"] == 0:
        raise Infra("TLC explored 0 states on %s/%s" % (module, cfg))
    res["exhaustive"] = res["violated"] is None and res["queue"] == 0
    if coverage:
        res["zero_actions"] = _zero_coverage_actions(res["out"])
    return res


def _zero_coverage_actions(out):
    zeros = []
    for m in re.finditer(r"^<(\w+) line \d+, col \d+ to line \d+, col \d+ of module (\w+)>: (\d+):(\d+)", out, re.M):
        if int(m.group(4)) == 0 and int(m.group(3)) == 0:
            zeros.append(m.group(1))
    return zeros


_BEH_RE = re.compile(r'^<<"(\w+)", (".*")>>$')


def parse_emitted(out, tag="BEH"):
    """Lines printed by PrintT(<<tag, ToJson(x)>>) -> list of decoded JSON values (deduplicated, ordered)."""
    seen = set()
    res = []
    for line in out.splitlines():
        m = _BEH_RE.match(line)
        if not m or m.group(1) != tag:
            continue
        lit = m.group(2)
        if lit in seen:
            continue
        seen.add(lit)
        try:
            res.append(json.loads(json.loads(lit)))
        except Exception:
            # TLA+ string printing is JSON-compatible except for unusual escapes
            s = lit[1:-1].replace('\\"', '"').replace("\\\\", "\\")
            res.append(json.loads(s))
    return res


def tlc_sim(ctx, module, cfg, num, depth, seed=None, timeout=600, env=None, tag=None, emit_tag="BEH",
            workers=1):
    """tlc -simulate; behaviours are emitted by an always-true invariant printing ToJson(hist)."""
    seed = ctx.seed if seed is None else seed
    tag = tag or (module + "_sim")
    extra = ["-simulate", "num=%d" % num, "-depth", str(depth), "-seed", str(seed)]
    res = _run_tlc(ctx, tag, module, cfg, workers, timeout, extra, env)
    errs = tlc_errors(res["out"])
    if res["violated"] is not None:
        raise Infra("simulation config %s/%s reports %s (generator must not check properties)" % (
            module, cfg, res["violated"]))
    if res["rc"] != 0 or errs:
        raise Infra("TLC -simulate failed on %s/%s rc=%s %s (see %s)" % (module, cfg, res["rc"], errs[:3], res["outfile"]))
    behs = parse_emitted(res["out"], emit_tag)
    m = _SIMSTAT_RE.search(res["out"])
    res["sim_states"] = int(m.group(1)) if m else 0
    res["behaviours"] = behs
    if not behs:
        raise Infra("generator %s/%s emitted no behaviours (see %s)" % (module, cfg, res["outfile"]))
    return res


def tlc_emit(ctx, module, cfg, timeout=600, env=None, tag=None, emit_tag="BEH", workers=1):
    """Exhaustive run whose purpose is to emit values (e.g. all input vectors with the spec's result)."""
    tag = tag or (module + "_emit")
    res = _run_tlc(ctx, tag, module, cfg, workers, timeout, [], env)
    errs = tlc_errors(res["out"])
    if res["violated"] is not None or res["rc"] != 0 or errs:
        raise Infra("TLC emit run failed on %s/%s rc=%s %s %s (see %s)" % (
            module, cfg, res["rc"], res["violated"], errs[:3], res["outfile"]))
    res["behaviours"] = parse_emitted(res["out"], emit_tag)
    if not res["behaviours"]:
        raise Infra("emit run %s/%s produced nothing" % (module, cfg))
    return res


def tlc_trace(ctx, module, cfg, trace_path, timeout=900, env=None, tag=None, dfs=False):
    """Validate a recorded ndjson trace. The trace spec reads IOEnv.VERIF_TRACE, keeps the position
    in variable l and records the high-water mark with TLCSet(1, l) in a CONSTRAINT (so -workers 1).
    Returns dict(accepted, reached, total, violated, state) ."""
    tag = tag or (module + "_trace")
    e = {"VERIF_TRACE": trace_path}
    if env:
        e.update(env)
    jopts = "-Dtlc2.tool.queue.IStateQueue=StateDeque" if dfs else None
    total = sum(1 for _ in open(trace_path))
    res = _run_tlc(ctx, tag, module, cfg, 1, timeout, [], e, jopts)
    out = res["out"]
    errs = tlc_errors(out)
    m = re.findall(r'<<"HWM", (\d+)>>', out)
    reached = max([int(x) for x in m]) if m else None
    res["total"] = total
    res["reached"] = reached
    if res["violated"] in (None,) and (res["rc"] != 0 or errs):
        raise Infra("trace validation failed to run %s/%s rc=%s %s (see %s)" % (module, cfg, res["rc"], errs[:3], res["outfile"]))
    res["accepted"] = (res["violated"] is None)
    res["state_dump"] = _last_state(out)
    return res


def _last_state(out):
    i = out.rfind("\nState ")
    if i < 0:
        return ""
    j = out.find("\n\n", i + 1)
    return out[i + 1:j if j > 0 else None][:6000]


def violated_line(res):
    """For Obs-mode invariant violations: value of l in the last printed state."""
    m = re.findall(r"/\\ l = (\d+)", res.get("state_dump", ""))
    return int(m[-1]) if m else None


# ----------------------------------------------------------------------------------------------
# Go harness
# ----------------------------------------------------------------------------------------------
def _gen_gomod(repo, dest_mod):
    """harness go.mod = /repo/go.mod's require+replace blocks + replace lava => repo."""
    with open(os.path.join(repo, "go.mod")) as f:
        src = f.read()
    src = re.sub(r"^module .*$", "module verif/harness", src, count=1, flags=re.M)
    extra = "\nrequire github.com/lavanet/lava/v5 v5.0.0\n\nreplace github.com/lavanet/lava/v5 => %s\n" % repo
    extra += "\nrequire pgregory.net/rapid v1.3.0\n"
    new = src + extra
    with open(os.path.join(repo, "go.sum")) as f:
        sm = f.read()
    extra_sum = os.path.join(HARNESS, "extra.sum")
    if os.path.exists(extra_sum):
        with open(extra_sum) as f:
            sm += f.read()
    # the go command may reformat go.mod / extend go.sum; regenerate only when the *inputs* changed
    stamp = hashlib.sha256((new + "\0" + sm).encode()).hexdigest()
    stamp_file = dest_mod + ".stamp"
    dest_sum = dest_mod[:-4] + ".sum"
    old = None
    if os.path.exists(stamp_file) and os.path.exists(dest_mod) and os.path.exists(dest_sum):
        with open(stamp_file) as f:
            old = f.read().strip()
    if old == stamp:
        return
    for path, content in ((dest_mod, new), (dest_sum, sm), (stamp_file, stamp)):
        tmp = "%s.tmp%d" % (path, os.getpid())
        with open(tmp, "w") as f:
            f.write(content)
        os.replace(tmp, path)


def go_build(cmd_name, tags="verif", race=False):
    """Build harness/cmd/<cmd_name> against REPO's working tree. Returns binary path."""
    os.makedirs(BUILD, exist_ok=True)
    if REPO == "/repo":
        modfile = os.path.join(HARNESS, "go.mod")
        suffix = ""
    else:
        h = hashlib.sha256(REPO.encode()).hexdigest()[:10]
        d = os.path.join(WORK, "_mod_" + h)
        os.makedirs(d, exist_ok=True)
        modfile = os.path.join(d, "go.mod")
        suffix = "_" + h
    _gen_gomod(REPO, modfile)
    out = os.path.join(BUILD, cmd_name + suffix + ("_race" if race else ""))
    cmd = ["go", "build", "-tags", tags, "-o", out]
    if modfile != os.path.join(HARNESS, "go.mod"):
        cmd += ["-modfile", modfile]
    if race:
        cmd += ["-race"]
    cmd += ["./cmd/" + cmd_name]
    t0 = time.time()
    p = subprocess.run(cmd, cwd=HARNESS, env=env_with(), stdout=subprocess.PIPE, stderr=subprocess.STDOUT, text=True)
    if p.returncode != 0:
        raise Infra("harness build failed (%s):\n%s" % (cmd_name, p.stdout[-4000:]))
    log("built %s in %.1fs" % (cmd_name, time.time() - t0))
    return out


def go_test_build(pkg_name, tags="verif", race=False):
    """Compile harness/t/<pkg_name> into a test binary (drivers that need a *testing.T, e.g. the
    chain drivers built on testutil/common.Tester). Returns the binary path."""
    os.makedirs(BUILD, exist_ok=True)
    if REPO == "/repo":
        modfile = os.path.join(HARNESS, "go.mod")
        suffix = ""
    else:
        h = hashlib.sha256(REPO.encode()).hexdigest()[:10]
        d = os.path.join(WORK, "_mod_" + h)
        os.makedirs(d, exist_ok=True)
        modfile = os.path.join(d, "go.mod")
        suffix = "_" + h
    _gen_gomod(REPO, modfile)
    out = os.path.join(BUILD, pkg_name + suffix + ("_race" if race else "") + ".test")
    cmd = ["go", "test", "-c", "-vet=off", "-tags", tags, "-o", out]
    if modfile != os.path.join(HARNESS, "go.mod"):
        cmd += ["-modfile", modfile]
    if race:
        cmd += ["-race"]
    cmd += ["./t/" + pkg_name]
    t0 = time.time()
    p = subprocess.run(cmd, cwd=HARNESS, env=env_with(), stdout=subprocess.PIPE, stderr=subprocess.STDOUT, text=True)
    if p.returncode != 0:
        raise Infra("harness test build failed (%s):\n%s" % (pkg_name, p.stdout[-4000:]))
    log("built %s.test in %.1fs" % (pkg_name, time.time() - t0))
    return out


def run_test_harness(binary, env, test="TestDrive", timeout=3600, check=True):
    """Run a compiled test-binary driver. Inputs/outputs are passed through env (VERIF_IN, VERIF_OUT, ...)."""
    cmd = [binary, "-test.run", "^%s$" % test, "-test.count", "1", "-test.timeout", "0"]
    try:
        p = subprocess.run(cmd, env=env_with(env), stdout=subprocess.PIPE, stderr=subprocess.STDOUT, text=True,
                           timeout=timeout, cwd=os.path.dirname(binary))
    except subprocess.TimeoutExpired:
        raise Infra("driver %s timed out after %ss" % (os.path.basename(binary), timeout))
    if check and (p.returncode != 0 or "\nPASS" not in "\n" + p.stdout):
        raise Infra("driver %s failed rc=%d: %s" % (os.path.basename(binary), p.returncode, p.stdout[-3000:]))
    return p


def run_harness(binary, args, timeout=1800, env=None, stdin=None, check=True):
    p = subprocess.run([binary] + [str(a) for a in args], env=env_with(env), input=stdin,
                       stdout=subprocess.PIPE, stderr=subprocess.PIPE, text=True, timeout=timeout)
    if check and p.returncode != 0:
        raise Infra("harness %s %s exited %d: %s" % (os.path.basename(binary), args, p.returncode, p.stderr[-3000:]))
    return p


def write_json(path, obj):
    with open(path, "w") as f:
        json.dump(obj, f)


def write_ndjson(path, rows):
    with open(path, "w") as f:
        for r in rows:
            f.write(json.dumps(r, sort_keys=True))
            f.write("\n")


def read_ndjson(path):
    rows = []
    with open(path) as f:
        for line in f:
            line = line.strip()
            if line:
                rows.append(json.loads(line))
    return rows


def split_traces(rows, reset_ev="reset", key="ev"):
    """Split a concatenated trace into per-behaviour chunks (each starts with a reset event)."""
    chunks = []
    for r in rows:
        if r.get(key) == reset_ev or not chunks:
            chunks.append([])
        chunks[-1].append(r)
    return chunks


def locate_trace(rows, line, reset_ev="reset", key="ev"):
    """Index (0-based) of the behaviour containing 1-based trace line `line`, and the chunk."""
    idx = -1
    start = 0
    for i, r in enumerate(rows[:line]):
        if r.get(key) == reset_ev:
            idx += 1
            start = i
    end = len(rows)
    for j in range(start + 1, len(rows)):
        if rows[j].get(key) == reset_ev:
            end = j
            break
    return idx, rows[start:end], line - start
