"""C19 Unresponsive-provider jailing is justified and bounded.  (DESIGN.md section 4, C19)

M: specs/Unresponsive.tla exhaustively (3 providers, complaint / serviced CU around the 4x threshold, window
   arithmetic, min-providers guard, escalation over epoch durations) - P_Core + P_JustifiedCode hold for the
   transcription; P_Justified (the property's own wording: serviced CU over the whole window) is checked in
   a second run whose counter-example is only a candidate.
G: TLC -simulate emits behaviours (relay payments with reports, unfreeze, epoch advances with durations).
R: harness/t/unresponsive replays them on the real chain; per step: stake entries, complainer / serviced CU
   records, pairing eligibility, jail events.
V: Trace_Unresponsive, Obs mode decides (T_Justified, T_HistoryLong, T_NoDouble, T_Escalation,
   T_MinProviders, T_EntryStep evaluated on the real steps); Conf mode is drift only.
"""
import collections
import os
import vlib

LEVEL = "model_checking"
json = vlib.json
NC, NS, REC = 2, 8, 3


def _drive(ctx, behs, tag):
    binp = vlib.go_test_build("unresponsive")
    bpath = os.path.join(ctx.work, tag + "_behaviours.json")
    tpath = os.path.join(ctx.work, tag + "_trace.ndjson")
    vlib.write_json(bpath, behs)
    vlib.run_test_harness(binp, {"VERIF_IN": bpath, "VERIF_OUT": tpath, "VERIF_SEED": ctx.seed}, timeout=3000)
    return tpath, vlib.read_ndjson(tpath)


def _classify(kind, ev, prev):
    """Canonical signature of a violated clause at an epoch step (label only; TLC decided the violation)."""
    k = kind.split(":")[-1].replace("T_", "")
    if ev.get("panic"):
        return "panic@%s" % ev.get("ev")
    if k == "Justified" and prev:
        cur = ev["ep"]
        for p in ev.get("jailed", []):
            comp = {c["e"]: c["cu"] for c in prev["comp"].get(p, [])}
            serv = {c["e"]: c["cu"] for c in prev["serv"].get(p, [])}
            winc = [cur - REC - i for i in range(NC)]
            wins = [cur - REC - i for i in range(NS)]
            wc = sum(comp.get(e, 0) for e in winc)
            ws = sum(serv.get(e, 0) for e in wins)
            wcode = sum(serv.get(e, 0) for e in wins if e in comp)
            if wc <= 4 * ws:
                if wc > 4 * wcode:
                    return "Justified@serviced-cu-ignored-in-epochs-without-complaints"
                return "Justified@complaints-not-above-4x-serviced"
    return "%s@%s" % (k, ev.get("ev"))


def _obs(ctx, tpath, rows, behs, cfg, tag):
    res = vlib.tlc_trace(ctx, "Trace_Unresponsive", cfg, tpath, env={"VERIF_CONF": "0"}, tag=tag)
    if res["accepted"]:
        return None
    kind = res["violated"]
    if kind == "postcondition":
        line = (res["reached"] or 0) + 1
        ev = rows[line - 1] if line - 1 < len(rows) else {}
        if not ev.get("panic"):
            raise vlib.Infra("trace line %d breaks the projection assumptions: %s" % (line, json.dumps(ev)[:300]))
        kind = "panic"
    else:
        line = vlib.violated_line(res) or (res["reached"] or 1)
    bi, chunk, off = vlib.locate_trace(rows, line)
    ev = rows[line - 1] if line - 1 < len(rows) else {}
    prev = rows[line - 2] if line >= 2 else {}
    return {"sig": _classify(kind, ev, prev), "beh": behs[bi] if 0 <= bi < len(behs) else None, "bi": bi,
            "line": off, "event": ev, "prev": prev, "kind": kind}


def _brief(ev):
    return json.dumps({k: ev.get(k) for k in ("ev", "ep", "now", "jailed", "ent", "comp", "serv")})[:700]


def _validate(ctx, behs, tag, conf_pass=True):
    """Returns (list of failing-behaviour dicts, rows)."""
    tpath, rows = _drive(ctx, behs, tag)
    if sum(1 for r in rows if r["ev"] == "reset") != len(behs):
        raise vlib.Infra("driver logged a wrong number of resets")
    bads = []
    bad = _obs(ctx, tpath, rows, behs, "Trace_Unresponsive.cfg", tag + "_obs")
    if bad:
        bads.append(bad)
        if bad["kind"].endswith("T_Justified"):
            # keep checking every other clause (and the code-level threshold) over the whole trace
            bad2 = _obs(ctx, tpath, rows, behs, "Trace_Unresponsive_kf.cfg", tag + "_obs_kf")
            if bad2:
                bads.append(bad2)
    if conf_pass:
        res2 = vlib.tlc_trace(ctx, "Trace_Unresponsive", "Trace_Unresponsive_conf.cfg", tpath, env={"VERIF_CONF": "1"}, tag=tag + "_conf")
        if not res2["accepted"]:
            line = (res2["reached"] or 0) + 1
            ev = rows[line - 1] if line - 1 < len(rows) else {}
            ctx.drift.append("Conf: real step is not the Unresponsive.tla action at trace line %d: %s" % (
                line, json.dumps({k: ev.get(k) for k in ("ev", "p", "e", "cu", "r", "dt", "ok", "ep", "jailed")})))
        else:
            ctx.cov["conf_lines_accepted"] = ctx.cov.get("conf_lines_accepted", 0) + len(rows)
    return bads, rows


def _coverage(ctx, behs, rows):
    c = collections.Counter((r["ev"], bool(r["ok"])) for r in rows)
    jails = collections.Counter()
    prev = None
    for r in rows:
        for p in r["jailed"]:
            e = r["ent"][p]
            jails["hard" if e["applied"] >= 2000000000 else "soft"] += 1
        prev = r
    complaints = sum(1 for r in rows if r["ev"] == "pay" and r["ok"] and r["r"])
    guard = 0  # epoch steps where somebody stayed unpunished although complained about (window non-empty)
    ctx.cov["trace_events"] = len(rows)
    ctx.cov["steps"] = {"%s/%s" % (k[0], "ok" if k[1] else "rej"): v for k, v in sorted(c.items())}
    ctx.cov["jails"] = dict(jails)
    need = {
        "accepted relay payments": c[("pay", True)] >= 100,
        "payments with reports": complaints >= 50,
        "epoch steps": c[("epoch", True)] >= 100,
        "soft jails": jails["soft"] >= 5,
        "hard jails (escalation)": jails["hard"] >= 1,
        "unfreeze attempts": c[("unfreeze", True)] + c[("unfreeze", False)] >= 1,
    }
    missing = [k for k, ok in need.items() if not ok]
    if missing:
        raise vlib.Infra("vacuous replay, not exercised: %s (%s, %s)" % (missing, ctx.cov["steps"], ctx.cov["jails"]))
    ctx.cov["distinct_nontrivial"] = len({json.dumps(b, sort_keys=True) for b in behs
                                          if any(o["a"] == "pay" and o["r"] for o in b["ops"])})


def run(ctx):
    mc = vlib.tlc_mc(ctx, "Unresponsive", ctx.pick("Unresponsive_mcq.cfg", "Unresponsive_mc.cfg"),
                     timeout=ctx.pick(900, 3000), coverage=not ctx.quick)
    if mc["violated"]:
        raise vlib.Infra("design-level spec violates %s; spec must be repaired (see %s)" % (mc["violated"], mc["outfile"]))
    if not mc["exhaustive"]:
        raise vlib.Infra("TLC run not exhaustive")
    ctx.add_mc("Unresponsive exhaustive (core clauses + code-level threshold)", mc)
    mj = vlib.tlc_mc(ctx, "Unresponsive", "Unresponsive_mcj.cfg", timeout=900, tag="Unresponsive_mcj")
    if mj["violated"]:
        ctx.notes.append("design level: the transcription violates %s (serviced CU of epochs without complaint records is "
                         "not counted) - candidate only, decided by the replay below" % mj["violated"])
    else:
        ctx.add_mc("Unresponsive exhaustive (P_Justified)", mj)
    sim = vlib.tlc_sim(ctx, "Unresponsive", "Unresponsive_sim.cfg", num=ctx.pick(40, 120), depth=60, timeout=1200)
    behs = sim["behaviours"]
    ctx.cov["evaluations"] = len(behs)
    ctx.cov["rule"] = ("behaviours = TLC -simulate runs of Unresponsive.tla GenNext (60 steps: relay payments of 4 providers "
                       "over the last epochs with 0-2 reported providers and CU in {3,24,30,36}, unfreeze, epoch advances of "
                       "20 min / 100 min / 11 h); non-trivial = contains a payment with a report; distinct by full step list")
    ctx.sample(behs[0]["ops"][:6])
    ctx.assumptions += [
        "TLC bounded constants (specs/Unresponsive_mc*.cfg): 3 providers, NC=2, NS=3, REC=1, 3 payments, 5 epochs",
        "real chain: one spec, 4 providers all paired (plan max-providers-to-pair 4), second plan with 3 = smallest plan; "
        "constants 2 / 8 / 3 epochs as compiled; epochs of 20 blocks",
        "'history long enough' is read as the code does: StakeAppliedBlock at least max(NC,NS)+REC epochs old, or the provider "
        "has been jailed before (its applied block was moved by the jail itself)",
        "'within a day' is read as: the previous jail ended less than 24 h before the new punishment",
        "jail events (provider_temporary_jailed / provider_jailed) identify the punished providers; any change of a stake "
        "entry without such an event is itself a violation (T_EntryStep)",
    ]
    bads, rows = _validate(ctx, behs, "sim")
    seen = set()
    for bad in bads:
        if bad["sig"] in seen:
            continue
        seen.add(bad["sig"])
        agains, _ = _validate(ctx, [bad["beh"]], "repro", conf_pass=False)
        again = [a for a in agains if a["sig"] == bad["sig"]]
        if not again:
            raise vlib.Infra("counter-example not reproduced: %s" % bad["sig"])
        a = again[0]
        ctx.violation(a["sig"], "real chain breaks %s at step %d: %s ; state before: %s" % (
            a["kind"], a["line"], _brief(a["event"]), _brief(a["prev"])), {"behaviours": [bad["beh"]]})
    ctx.cov["traces_validated_against_impl"] += len(behs)
    _coverage(ctx, behs, rows)


def replay(ctx, path):
    with open(path) as f:
        obj = json.load(f)
    bads, _ = _validate(ctx, obj["behaviours"], "replay", conf_pass=False)
    for bad in bads:
        ctx.violation(bad["sig"], "replayed behaviour still fails %s: %s" % (bad["kind"], _brief(bad["event"])),
                      {"behaviours": [bad["beh"]]})
