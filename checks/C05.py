"""C05 Relay payments are accepted only for authentic, paired relays.  (DESIGN.md section 4, C05)

M: Payments.tla exhaustively: the rejection ladder in code order; C05_Step: every accepted relay is
   Authentic (signed by a developer key - or by the user of a badge signed by one - of an enabled
   project, provider field = sender, current lava chain id, epoch not in the future and in memory
   and an epoch start, enabled spec, sender in the pairing) and a rejected transaction changes
   nothing (the code rejects the whole transaction as soon as one relay is rejected).
G: (a) the mutation matrix, emitted exhaustively by TLC (MatrixInit): one valid relay x every
   single-field mutation x position in a 1-3-relay transaction (x sender x signer in the thorough tier);
   (b) TLC -simulate, profile c05 (all mutations, random histories).
R: harness/t/payments: real keys sign real relays and badges; tampering after signing; full store hashes.
V: Obs mode decides: C05_Step on the real transitions + C05_Hashes (a rejected payment transaction
   leaves EVERY mounted KV store byte-identical: sha256 over all key/value pairs per store).
   Conf mode: drift only (also tells that every all-valid vector was accepted, as the model says).
"""
import os
import importlib.util
import vlib

_spec = importlib.util.spec_from_file_location("_pay", os.path.join(os.path.dirname(os.path.abspath(__file__)), "_pay.py"))
_pay = importlib.util.module_from_spec(_spec)
_spec.loader.exec_module(_pay)

LEVEL = "model_checking"
CFG = "Trace_Payments_C05.cfg"


def mutation_of(x, p):
    """Name the single-field mutation class of a logged relay (for signatures)."""
    b = x["b"]
    if x["tm"] != "none":
        return "tampered-" + x["tm"]
    if x["pf"] != p:
        return "provider-field"
    if not x["lc"]:
        return "lava-chain-id"
    if b["u"] != "-":
        if not b["lc"]:
            return "badge-chain"
        if b["is"] not in ("c1", "k1"):
            return "badge-issuer"
        if b["u"] != x["sg"]:
            return "badge-user" if x["sg"] not in ("c1", "k1") else "plain-with-badge"
        if (b["e"], b["o"]) != (x["e"], x["o"]):
            return "badge-epoch"
        return "badge"
    if x["sg"] not in ("c1", "k1"):
        return "signer-" + x["sg"]
    if x["sp"] != "S1":
        return "spec-" + x["sp"]
    if x["o"] != 0:
        return "non-epoch-start"
    if x["q"] == "bad":
        return "qos-out-of-range"
    return "epoch-%d" % x["e"]


def classify(violated, ev, prev):
    name = (violated or "").split(":")[-1]
    if name == "C05_HashesProp":
        return "rejected-tx-changed-store"
    if ev.get("ev") == "pay":
        if not ev["ok"]:
            return "rejected-tx-changed-state"
        st = ev["st"]
        for x in ev["rs"]:
            if x["acc"]:
                m = mutation_of(x, ev["p"])
                if m.startswith("epoch-"):
                    if x["e"] < st["earliest"]:
                        return "accepted:expired-epoch"
                    if x["e"] > st["cur"]:
                        return "accepted:future-epoch"
                    if ev["p"] == "p3":
                        return "accepted:unpaired-provider"
                    continue
                if m != "badge":
                    return "accepted:" + m
        return "accepted:unauthentic"
    return name


def run(ctx):
    if not os.environ.get("VERIF_PAY_SKIP_MC"):   # development aid for mutant runs: replay only
        g = _pay.mc(ctx, "Payments ladder exhaustive", "Payments_mcq.cfg", timeout=ctx.pick(900, 3600))
        if g["violated"]:
            raise vlib.Infra("design-level spec violates %s; spec must be repaired (see %s)" % (g["violated"], g["outfile"]))
    em = vlib.tlc_emit(ctx, "Payments", ctx.pick("Payments_matrixq.cfg", "Payments_matrix.cfg"), timeout=900, tag="Payments_matrix")
    matrix = em["behaviours"]
    sim = _pay.generate(ctx, "c05", num=ctx.pick(30, 300), depth=9)
    behs = matrix + sim
    ctx.cov["evaluations"] = len(behs)
    ctx.cov["matrix_vectors"] = len(matrix)
    ctx.sample(matrix[0][-1])
    rows, tpath = _pay.decide(ctx, behs, CFG, "c05", classify, max_iter=ctx.pick(2, 4), hashes=True)
    if ctx.violations:
        return      # reproduced violation(s): the verdict stands, coverage accounting is moot
    cov = _pay.coverage(rows)
    chunks = vlib.split_traces(rows)
    # matrix accounting: mutation class -> (accepted, rejected)
    classes = {}
    valid_ok = 0
    for b, ch in zip(matrix, chunks[:len(matrix)]):
        tx = ch[-1]
        muts = [mutation_of(x, tx["p"]) for x in tx["rs"]]
        odd = [m for m in muts if m != "epoch-4"]
        key = odd[0] if odd else "valid"
        a = classes.setdefault(key, [0, 0])
        a[0 if tx["ok"] else 1] += 1
        if key == "valid" and tx["ok"]:
            valid_ok += 1
    cov["matrix_classes"] = classes
    ctx.cov["driver"] = cov
    ctx.cov["distinct_nontrivial"] = len({vlib.json.dumps(b) for b in behs})
    ctx.cov["rule"] = ("matrix = every initial state of Payments.tla MatrixInit (mutation x tx length x position [x sender x signer]); "
                       "plus TLC -simulate profile c05; distinct by full action list (every vector is non-trivial: it contains one payment transaction)")
    if len(classes) < 15 or valid_ok < 3 or cov["soft"] < 20 or cov["hard"] < 10 or cov["tx_ok"] < 10:
        raise vlib.Infra("vacuous coverage: %s" % cov)
    if not all(r["st"]["hs"] for r in rows):
        raise vlib.Infra("store hashes missing from the trace")
    _pay.note_conf(ctx, tpath, "c05_conf", len(rows))
    ctx.assumptions += _pay.ASSUMPTIONS + [
        "bank balances live outside the store in the mock bank; chainx.Tx restores them for a failed transaction, so 'balances unchanged' is "
        "observed through the stores only (RelayPayment moves no coins)"]


def replay(ctx, path):
    _pay.replay_file(ctx, path, classify)
