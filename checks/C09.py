"""C09 Token supply never increases.  (DESIGN.md section 4, C09; section 3 "LavaChain action vocabulary")

This file also holds the machinery shared by the whole-chain history checks (C09, C37, C10):

M: LavaChain.tla exhaustively on tiny entity sets (LavaChain_mcq/_mc.cfg): SupplyNeverIncreases, NoPanic,
   Backed* and BankSound hold for the abstract design (FixRenew = TRUE).
G: TLC -simulate on LavaChain.tla (GenNext) emits whole-chain histories in four families (Bias = all | renew |
   stake | iprpc): ~60 abstract steps each, block-time steps biased to month boundaries (months of block time).
R: harness/t/hist replays them on the real keepers (testutil/common.Tester via chainx: atomic txs, blocks under
   recover()) and logs after every step height, time, supply (+ exact delta), module balances, obligations read
   from public state, tx result class, panic flag.
V: TLC validates the recorded trace in Obs mode (Trace_LavaChain.tla): the property is evaluated by TLC on the
   real states / transitions.  A candidate violation is re-executed in a fresh driver process on that single
   history and re-validated by TLC before it is reported.
"""
import collections
import os
import re
import vlib

LEVEL = "model_checking"

CONST_T0 = 2264761
CONST_H0 = 50
FAMILIES = ["all", "renew", "stake", "iprpc"]
ALL_FAMILIES = FAMILIES + ["jump"]
BLOCK_KINDS = {"NextBlock", "NextEpoch", "Slash"}
TX_KINDS = ["PlanAdd", "PlanModify", "PlanDel", "SubBuy", "SubBuyAdvance", "SubAutoRenew", "ProjAdd", "ProjDel",
            "KeyAdd", "KeyDel", "PolicySet", "Stake", "MoveStake", "Unstake", "Freeze", "Unfreeze",
            "DsDelegate", "DsRedelegate", "DsUnbond", "DsClaim", "ValDelegate", "ValUndelegate", "ValRedelegate",
            "RelayPay", "IprpcSetData", "IprpcFund", "ParamChange"]


def plan(ctx, pid):
    """number of histories per family (quick total >= 100)"""
    quick = {"all": 36, "renew": 26, "stake": 18, "iprpc": 20}
    thorough = {"all": 200, "renew": 120, "stake": 90, "iprpc": 60}
    base = quick if ctx.quick else thorough
    # VERIF_HIST_SCALE (default 1) shrinks the number of histories; used only for the mutant self-tests on a busy machine
    scale = float(os.environ.get("VERIF_HIST_SCALE", "1"))
    return {k: max(3, int(v * scale)) for k, v in base.items()}


def design_level(ctx, which=("", "_sub", "_stake", "_iprpc")):
    """exhaustive runs of the abstract design: all action kinds (shallow) + scenario-focused kinds (deeper)"""
    if os.environ.get("VERIF_HIST_NOMC") == "1":
        # mutant self-tests on a busy machine: the design-level run does not depend on the repository tree
        ctx.notes.append("design-level exhaustive run skipped (VERIF_HIST_NOMC=1)")
        return
    for suf in which:
        cfg = ctx.pick("LavaChain_mcq%s.cfg", "LavaChain_mc%s.cfg") % suf
        mc = vlib.tlc_mc(ctx, "LavaChain", cfg, timeout=ctx.pick(900, 3600))
        if mc["violated"]:
            raise vlib.Infra("design-level LavaChain spec violates %s (see %s)" % (mc["violated"], mc["outfile"]))
        ctx.add_mc("LavaChain exhaustive (%s)" % cfg, mc)


def generate(ctx, counts):
    """one TLC -simulate run per family (run concurrently, one worker each; deterministic per seed)"""
    import concurrent.futures

    def one(fam):
        n = counts.get(fam, 0)
        sim = vlib.tlc_sim(ctx, "LavaChain", "LavaChain_sim_%s.cfg" % fam, num=n, depth=62, timeout=3600,
                           tag="LavaChain_sim_" + fam, seed=ctx.seed + ALL_FAMILIES.index(fam))
        behs = [b for b in sim["behaviours"] if len(b) >= 5][:n]
        if not behs:
            raise vlib.Infra("generator family %s produced no usable history" % fam)
        return fam, behs

    todo = [f for f in ALL_FAMILIES if counts.get(f, 0) > 0]
    fams = {}
    with concurrent.futures.ThreadPoolExecutor(max_workers=5) as ex:
        for fam, behs in ex.map(one, todo):
            fams[fam] = behs
    return fams


def gen_and_design(ctx, counts, which):
    """design-level exhaustive runs and the generators run side by side (independent TLC processes)"""
    import concurrent.futures
    with concurrent.futures.ThreadPoolExecutor(max_workers=2) as ex:
        fd = ex.submit(design_level, ctx, which)
        fg = ex.submit(generate, ctx, counts)
        fams = fg.result()
        fd.result()
    return fams


def drive(ctx, behs, tag):
    """replay behaviours on the real chain; returns (trace path, rows)"""
    binp = vlib.go_test_build("hist")
    bpath = os.path.join(ctx.work, tag + "_behaviours.json")
    tpath = os.path.join(ctx.work, tag + "_trace.ndjson")
    vlib.write_json(bpath, behs)
    vlib.run_test_harness(binp, {"VERIF_IN": bpath, "VERIF_OUT": tpath, "VERIF_SEED": "1"}, timeout=3600)
    rows = vlib.read_ndjson(tpath)
    nres = sum(1 for r in rows if r["ev"] == "reset")
    if nres != len(behs):
        raise vlib.Infra("driver wrote %d histories, expected %d" % (nres, len(behs)))
    for r in rows:
        if r["ev"] == "reset" and (r["t"] != CONST_T0 or r["h"] != CONST_H0):
            raise vlib.Infra("driver set-up clock (h=%s,t=%s) differs from the spec constants (H0=%s,T0=%s)" % (
                r["h"], r["t"], CONST_H0, CONST_T0))
    return tpath, rows


def acceptance(rows):
    """per action kind: [generated, accepted]; block steps count as accepted when they ran"""
    acc = collections.OrderedDict()
    errs = collections.Counter()
    for r in rows:
        if r["ev"] == "reset":
            continue
        a = acc.setdefault(r["ev"], [0, 0])
        a[0] += 1
        if r["res"] in ("ok", "block"):
            a[1] += 1
        else:
            errs[(r["ev"], r["res"], r["err"][:70])] += 1
    return acc, errs


def months_spanned(rows):
    spans = []
    t0 = None
    last = None
    for r in rows:
        if r["ev"] == "reset":
            if t0 is not None:
                spans.append((last - t0) / (30 * 86400.0))
            t0 = r["t"]
        last = r["t"]
    if t0 is not None:
        spans.append((last - t0) / (30 * 86400.0))
    return spans


def check_live(ctx, rows, nbeh):
    """dead driver / vacuity guards (Infra, never a violation)"""
    acc, errs = acceptance(rows)
    tx_gen = sum(v[0] for k, v in acc.items() if k not in BLOCK_KINDS)
    tx_ok = sum(v[1] for k, v in acc.items() if k not in BLOCK_KINDS)
    rate = (tx_ok / float(tx_gen)) if tx_gen else 0.0
    ctx.cov["tx_generated"] = tx_gen
    ctx.cov["tx_accepted"] = tx_ok
    ctx.cov["tx_acceptance_rate"] = round(rate, 3)
    ctx.cov["acceptance_per_kind"] = {k: "%d/%d" % (v[1], v[0]) for k, v in acc.items()}
    ctx.cov["top_rejections"] = ["%s %s x%d: %s" % (k[0], k[1], n, k[2]) for k, n in errs.most_common(12)]
    spans = months_spanned(rows)
    ctx.cov["months_spanned_mean"] = round(sum(spans) / max(1, len(spans)), 2)
    ctx.cov["months_spanned_max"] = round(max(spans), 2) if spans else 0
    if rate < 0.30:
        raise vlib.Infra("dead driver: only %.0f%% of the generated txs were accepted by the real chain" % (100 * rate))
    missing = [k for k in TX_KINDS if acc.get(k, [0, 0])[1] == 0]
    ctx.cov["kinds_never_accepted"] = missing
    if len(missing) > 4:
        raise vlib.Infra("vacuous coverage: action kinds never accepted: %s" % missing)
    if ctx.cov["months_spanned_mean"] < 1.5:
        raise vlib.Infra("histories span only %.2f months of block time on average" % ctx.cov["months_spanned_mean"])
    driver_panics = [r for r in rows if r["res"] == "txpanic"]
    ctx.cov["tx_panics"] = len(driver_panics)
    return acc


def behaviours_of(rows):
    """list of (start index, end index) 0-based half-open per behaviour"""
    idx = [i for i, r in enumerate(rows) if r["ev"] == "reset"] + [len(rows)]
    return [(idx[i], idx[i + 1]) for i in range(len(idx) - 1)]


def validate(ctx, cfg, tpath, tag):
    """one TLC Obs-mode pass; returns None if accepted else dict(kind, line)"""
    res = vlib.tlc_trace(ctx, "Trace_LavaChain", cfg, tpath, tag=tag, timeout=1800)
    if res["accepted"]:
        if res["reached"] != res["total"]:
            raise vlib.Infra("trace validation stopped at %s of %s lines (%s)" % (res["reached"], res["total"], res["outfile"]))
        return None
    if res["violated"] == "postcondition":
        raise vlib.Infra("Obs-mode validation did not consume the trace (reached %s of %s; see %s)" % (
            res["reached"], res["total"], res["outfile"]))
    line = vlib.violated_line(res)
    if res["violated"] == "invariant:ProjectionSound":
        raise vlib.Infra("logged bank does not add up to the logged supply at trace line %s (projection incomplete; see %s)" % (
            line, res["outfile"]))
    if line is None:
        raise vlib.Infra("cannot locate the violating trace line (see %s)" % res["outfile"])
    return {"kind": res["violated"], "line": line, "out": res["outfile"]}


def hunt(ctx, cfg, behs, tag, signature_of, what_of, max_findings=4, live=True, families=None):
    """Validate all histories; every violating history is re-executed alone in a fresh driver process and
    re-validated; reproduced ones are reported (ctx.violation), then removed and the rest is validated again,
    so that a known finding never hides a different one.  Returns rows of the first full run."""
    tpath, rows = drive(ctx, behs, tag)
    if live:
        check_live(ctx, rows, len(behs))
    remaining = list(range(len(behs)))
    cur_rows = rows
    cur_path = tpath
    found = 0
    rounds = 0
    while True:
        rounds += 1
        bad = validate(ctx, cfg, cur_path, "%s_v%d" % (tag, rounds))
        if bad is None:
            break
        spans = behaviours_of(cur_rows)
        bi = max(i for i, (a, b) in enumerate(spans) if a < bad["line"])
        a, b = spans[bi]
        beh = behs[remaining[bi]]
        # reproduce: fresh process, that single history
        rp, rrows = drive(ctx, [beh], "%s_repro%d" % (tag, rounds))
        again = validate(ctx, cfg, rp, "%s_reprov%d" % (tag, rounds))
        if again is None:
            raise vlib.Infra("counter-example not reproduced (history %d, %s at trace line %d)" % (
                remaining[bi], bad["kind"], bad["line"]))
        ev = rrows[again["line"] - 1]
        prev = rrows[again["line"] - 2] if again["line"] >= 2 else ev
        fam = families[remaining[bi]] if families else tag
        sig = signature_of(again["kind"], prev, ev, fam) if families else signature_of(again["kind"], prev, ev)
        ctx.violation(sig, what_of(again["kind"], prev, ev, again["line"] - 1),
                      {"behaviours": [beh[:again["line"] - 1]], "family": fam})
        found += 1
        if found >= max_findings:
            ctx.notes.append("stopped after %d reproduced findings" % found)
            break
        # drop the violating history and validate the rest
        cur_rows = cur_rows[:a] + cur_rows[b:]
        del remaining[bi]
        if not cur_rows:
            break
        cur_path = os.path.join(ctx.work, "%s_rest%d.ndjson" % (tag, rounds))
        vlib.write_ndjson(cur_path, cur_rows)
    ctx.cov["traces_validated_against_impl"] += len(behs)
    ctx.cov["trace_events"] = ctx.cov.get("trace_events", 0) + len(rows)
    return rows


def directed_common():
    """One directed history (LavaChain vocabulary, validated like the generated ones) that makes the rarest money paths
    certain in every run: IPRPC funds of three months reach the providers that served the eligible consumer, monthly
    subscription payouts with a delegator, claims by vault and delegator, a provider unstaked before a distribution."""
    me = {"a": "NextBlock", "dt": "monthend"}
    p10 = {"a": "NextBlock", "dt": "plus10"}
    ne = {"a": "NextEpoch"}

    def relay(p, cu):
        return {"a": "RelayPay", "cons": "C1", "spec": "S1", "prov": p, "cu": cu}
    # "Setup nopools": the driver empties the reward pools before the history starts, so the monthly refill burns next to
    # nothing and a value-creating slip in the monthly distributions is not masked by the burn of the same block
    h = [{"a": "Setup", "mode": "nopools"},
         {"a": "IprpcSetData", "cons": "C1", "amt": 100},
         {"a": "SubBuy", "creator": "C1", "cons": "C1", "plan": "PL1", "months": 12, "auto": False}, ne,
         {"a": "DsDelegate", "del": "D1", "prov": "P1", "val": "VA1", "amt": 2000},
         # D2 is the poor delegator (2003 tokens): after this its liquid balance is 3
         {"a": "DsDelegate", "del": "D2", "prov": "P1", "val": "VA1", "amt": 2000},
         # two funded specs, only S1 is served: the fund of S2 must roll over without touching S1's
         {"a": "IprpcFund", "who": "C2", "spec": "S1", "months": 3, "amt": 1100},
         {"a": "IprpcFund", "who": "C2", "spec": "S2", "months": 3, "amt": 400},
         relay("P1", 60), me, p10, ne, relay("P1", 60), relay("P2", 10),
         me, p10, me, p10, ne, ne, ne, ne, relay("P1", 60), me, p10, me, p10, ne,
         {"a": "DsClaim", "who": "P1", "prov": ""}, {"a": "DsClaim", "who": "D1", "prov": ""},
         {"a": "DsClaim", "who": "D2", "prov": ""}, {"a": "DsClaim", "who": "P2", "prov": "P2"},
         {"a": "Unstake", "prov": "P2", "spec": "S1", "by": "vault", "val": "VA1"},
         relay("P1", 60), me, p10, me, p10, ne, ne, ne, ne, {"a": "DsClaim", "who": "P1", "prov": "P1"},
         {"a": "DsClaim", "who": "D2", "prov": ""}]
    return [h]


def flatten(fams):
    behs = []
    for fam in FAMILIES:
        behs += fams.get(fam, [])
    return behs


def common_cov(ctx, behs):
    ctx.cov["evaluations"] = len(behs)
    ctx.cov["distinct_nontrivial"] = len({vlib.json.dumps(b, sort_keys=True) for b in behs
                                          if sum(1 for s in b if s["a"] == "NextBlock") >= 3 and len(b) >= 20})
    ctx.cov["rule"] = ("histories = TLC -simulate runs of LavaChain.tla GenNext (<= 60 abstract steps over 30 action kinds, "
                       "families all/renew/stake/iprpc); non-trivial = at least 20 steps and 3 block-time steps; "
                       "distinct by full step list")
    ctx.sample(behs[0][:12])
    ctx.assumptions += [
        "testutil keepers (mock bank, in-memory IAVL) behave like the production chain for the modules involved",
        "transactions are atomic (chainx.Tx: cached context + bank snapshot), blocks = EndBlock + BeginBlock of all test keepers",
        "entities: 2 consumers, 3 providers, 2 validators, 2 delegators, 2 specs, 2 plans; epochBlocks 3-6, epochsToSave 3-6",
        "histories are the ones LavaChain.tla's enabling conditions generate (bounded by MaxOps = 60)",
    ]


# ------------------------------------------------------------------------------------------------------
# C09
# ------------------------------------------------------------------------------------------------------
def _sig(kind, prev, ev):
    return "supply-increase@%s" % ev.get("ev")


def _what(kind, prev, ev, step):
    return "total supply increased by %s at step %d (%s %s): %s -> %s" % (
        ev.get("dsup"), step, ev.get("ev"), vlib.json.dumps(ev.get("step"))[:200], prev.get("supply"), ev.get("supply"))


def run(ctx):
    fams = gen_and_design(ctx, plan(ctx, "C09"), ctx.pick(("", "_stake"), ("", "_sub", "_stake", "_iprpc")))
    behs = flatten(fams) + directed_common()
    common_cov(ctx, behs)
    rows = hunt(ctx, "Trace_LavaChain_C09.cfg", behs, "hist", _sig, _what)
    burns = sum(1 for r in rows if r["dsup"] < 0)
    ctx.cov["steps_with_burn"] = burns
    if burns == 0:
        raise vlib.Infra("vacuous: no step changed the supply (no refill/slash happened)")


def replay(ctx, path):
    with open(path) as f:
        obj = vlib.json.load(f)
    tpath, rows = drive(ctx, obj["behaviours"], "replay")
    bad = validate(ctx, "Trace_LavaChain_C09.cfg", tpath, "replay_v")
    if bad:
        ev = rows[bad["line"] - 1]
        prev = rows[bad["line"] - 2]
        ctx.violation(_sig(bad["kind"], prev, ev), "replayed history still fails: " + _what(bad["kind"], prev, ev, bad["line"] - 1),
                      {"behaviours": obj["behaviours"]})
