"""Shared machinery of the "pay" family checks (C03, C04, C05, C18; C17 uses the driver only).

G  TLC -simulate on specs/Payments.tla (GenNext, biased by the Profile constant of Payments_sim_<p>.cfg)
R  harness/t/payments replays the behaviours on the real chain (testutil/common.Tester via chainx)
V  specs/Trace_Payments.tla: Obs mode decides (property formulas evaluated by TLC on the real states),
   Conf mode reports drift and tells which transcription of EnforceClientCUsUsageInEpoch the code follows.
"""
import os
import vlib

SETUP = {"a": "setup", "v": "pay", "p": "", "rs": []}


def with_setup(behs, variant="pay"):
    s = dict(SETUP)
    s["v"] = variant
    return [[s] + list(b) for b in behs]


def generate(ctx, profile, num, depth, tag=None):
    sim = vlib.tlc_sim(ctx, "Payments", "Payments_sim_%s.cfg" % profile, num=num, depth=depth,
                       tag=tag or ("Payments_sim_" + profile), timeout=1800)
    return sim["behaviours"]


_BIN = {}


def driver():
    if "bin" not in _BIN:
        _BIN["bin"] = vlib.go_test_build("payments")
    return _BIN["bin"]


def replay(ctx, behs, tag, hashes=False, keys=False, variant="pay"):
    """behs: behaviours WITHOUT the setup step. Returns (trace path, rows)."""
    bpath = os.path.join(ctx.work, tag + "_behaviours.json")
    tpath = os.path.join(ctx.work, tag + "_trace.ndjson")
    vlib.write_json(bpath, with_setup(behs, variant))
    env = {"VERIF_IN": bpath, "VERIF_OUT": tpath, "VERIF_SEED": str(ctx.seed),
           "VERIF_HASHES": "1" if hashes else "0", "VERIF_KEYS": "1" if keys else "0"}
    vlib.run_test_harness(driver(), env, timeout=3600)
    rows = vlib.read_ndjson(tpath)
    if not rows or sum(1 for r in rows if r["ev"] == "reset") != len(behs):
        raise vlib.Infra("driver produced %d reset lines for %d behaviours" % (
            sum(1 for r in rows if r["ev"] == "reset"), len(behs)))
    if any(r.get("panic") for r in rows):
        # a panic inside a transaction / block is evidence for C37, not for this family; it makes the
        # projection unreliable, so refuse to decide on it
        bad = [r for r in rows if r.get("panic")][0]
        raise vlib.Infra("driver step panicked: %s" % vlib.json.dumps(bad)[:300])
    return tpath, rows


def obs(ctx, tpath, cfg, tag):
    return vlib.tlc_trace(ctx, "Trace_Payments", cfg, tpath, tag=tag, timeout=1800,
                          env={"VERIF_MODE": "obs", "VERIF_MATCH_TRACKED": "0"})


def failing_line(res):
    """1-based trace line whose step violated a property (the primed state of the last printed step),
    or the line after the high-water mark for a rejected trace."""
    if res["violated"] == "postcondition":
        return (res["reached"] or 0) + 1
    line = vlib.violated_line(res)
    return line or (res["reached"] or 1)


VARIANTS = [("f2+f2c", "Trace_Payments_conf_fixed2.cfg"),   # both repairs (EnforceClientCUsUsageInEpoch, CuSum guard)
            ("f2", "Trace_Payments_conf_fixed.cfg"),            # EnforceClientCUsUsageInEpoch repaired only
            ("asis", "Trace_Payments_conf.cfg")]                # the code as found


def conf(ctx, tpath, tag, match_tracked=False):
    """Conf-mode pass. Returns (variant, reached): variant names the transcription of which the whole
    trace is a behaviour ('f2+f2c' / 'f2' / 'asis'), else None; reached = lines accepted per variant."""
    env = {"VERIF_MODE": "conf", "VERIF_MATCH_TRACKED": "1" if match_tracked else "0"}
    reached = {}
    for name, cfg in VARIANTS:
        r = vlib.tlc_trace(ctx, "Trace_Payments", cfg, tpath, tag="%s_%s" % (tag, name.replace("+", "_")), env=env, timeout=1800)
        reached[name] = r["reached"]
        if r["accepted"]:
            return name, reached
    return None, reached


def note_conf(ctx, tpath, tag, nrows, match_tracked=False):
    variant, reached = conf(ctx, tpath, tag, match_tracked)
    ctx.cov["conforms_to"] = variant
    if variant is None:
        ctx.drift.append("real chain is a behaviour of no transcription in Payments.tla: lines accepted %s of %d" % (reached, nrows))
    return variant


def coverage(rows):
    c = {"tx": 0, "tx_ok": 0, "relays": 0, "relays_acc": 0, "soft": 0, "hard": 0, "epoch": 0, "block": 0, "down": 0,
         "badge_acc": 0, "capped": 0, "multi_ok": 0, "expired_mem": 0, "huge": 0, "huge_acc": 0, "bigdown": 0, "late_claims": 0}
    for r in rows:
        ev = r["ev"]
        if ev == "pay":
            c["tx"] += 1
            c["relays"] += len(r["rs"])
            if r["ok"]:
                c["tx_ok"] += 1
                if len(r["rs"]) > 1:
                    c["multi_ok"] += 1
            elif r["err"] in ("soft", "hard"):
                c[r["err"]] += 1
            for x in r["rs"]:
                if x["cu"] >= 1000000:
                    c["huge"] += 1
                    c["huge_acc"] += 1 if x["acc"] else 0
                if x["acc"]:
                    c["relays_acc"] += 1
                    if x["b"]["u"] != "-" and x["b"]["u"] == x["sg"]:
                        c["badge_acc"] += 1
                    if x["rew"] != x["cuv"]:
                        c["capped"] += 1
            if r["st"]["earliest"] > 0:
                c["expired_mem"] += 1
            # accepted relays of a finished epoch whose downtime factor is below the current epoch's
            dfs = r["st"]["df"]
            c["late_claims"] += sum(1 for x in r["rs"] if x["acc"] and 0 <= x["e"] < r["st"]["cur"] and dfs[x["e"]] < dfs[-1])
        elif ev in c:
            c[ev] += 1
    return c


def decide(ctx, behs, cfg, tag, classify, max_iter=3, hashes=False):
    """Replay + Obs validation. Every violation TLC reports is re-executed alone in a fresh driver run
    and re-validated; only then it is recorded. Returns (rows, tpath) of the full run."""
    tpath, rows = replay(ctx, behs, tag, hashes=hashes)
    cur_behs, cur_path, cur_rows = list(behs), tpath, rows
    seen = set()
    for it in range(max_iter):
        res = obs(ctx, cur_path, cfg, "%s_obs%d" % (tag, it))
        if res["accepted"]:
            if it == 0:
                ctx.cov["traces_validated_against_impl"] += len(behs)
                ctx.cov["trace_events"] = ctx.cov.get("trace_events", 0) + len(rows)
            break
        if res["violated"] == "postcondition":
            raise vlib.Infra("Obs-mode trace validation stopped at line %s of %s without a property violation (see %s)" % (
                res["reached"], cur_path, res["outfile"]))
        line = failing_line(res)
        bi, chunk, off = vlib.locate_trace(cur_rows, line)
        if not (0 <= bi < len(cur_behs)):
            raise vlib.Infra("cannot locate failing behaviour (line %s)" % line)
        beh = cur_behs[bi]
        # reproduce in a fresh process on this single behaviour
        p1, r1 = replay(ctx, [beh], "%s_repro%d" % (tag, it), hashes=hashes)
        again = obs(ctx, p1, cfg, "%s_repro%d_obs" % (tag, it))
        if again["accepted"]:
            raise vlib.Infra("counter-example not reproduced (%s at line %s)" % (res["violated"], line))
        l1 = failing_line(again)
        ev = r1[l1 - 1] if 0 < l1 <= len(r1) else {}
        prev = r1[l1 - 2] if l1 >= 2 else {}
        sig = classify(again["violated"], ev, prev)
        if sig not in seen:
            seen.add(sig)
            what = "%s violated on the real chain at step %d of the behaviour: %s" % (
                again["violated"], l1 - 1, vlib.json.dumps({k: ev.get(k) for k in ("ev", "p", "ok", "err", "rs")})[:600])
            ctx.violation(sig, what, {"behaviours": [beh], "cfg": cfg, "hashes": hashes})
        # look for further, different violations in the remaining behaviours
        cur_behs = cur_behs[:bi] + cur_behs[bi + 1:]
        if not cur_behs:
            break
        cur_path, cur_rows = replay(ctx, cur_behs, "%s_rest%d" % (tag, it), hashes=hashes)
    return rows, tpath


def replay_file(ctx, path, classify):
    with open(path) as f:
        obj = vlib.json.load(f)
    behs, cfg = obj["behaviours"], obj["cfg"]
    p1, r1 = replay(ctx, behs, "replay", hashes=obj.get("hashes", False))
    res = obs(ctx, p1, cfg, "replay_obs")
    if not res["accepted"]:
        if res["violated"] == "postcondition":
            raise vlib.Infra("replay trace not validated to the end (line %s)" % res["reached"])
        l1 = failing_line(res)
        ev = r1[l1 - 1] if 0 < l1 <= len(r1) else {}
        prev = r1[l1 - 2] if l1 >= 2 else {}
        ctx.violation(classify(res["violated"], ev, prev), "replayed behaviour still fails %s: %s" % (
            res["violated"], vlib.json.dumps({k: ev.get(k) for k in ("ev", "p", "ok", "err", "rs")})[:600]),
            {"behaviours": behs, "cfg": cfg, "hashes": obj.get("hashes", False)})
    else:
        ctx.cov["traces_validated_against_impl"] += len(behs)


def mc(ctx, name, cfg, timeout, tag=None):
    """Exhaustive design-level run; a violation on the spec alone is never a verdict (returned to the caller)."""
    res = vlib.tlc_mc(ctx, "Payments", cfg, timeout=timeout, tag=tag)
    ctx.add_mc(name, res)
    return res


ASSUMPTIONS = [
    "world fixed by harness/t/payments (1 live subscription with 3 projects, 1 expired subscription, 3 providers, 4 specs); constants in specs/Payments*.cfg",
    "transactions are atomic as under baseapp (chainx.Tx: cached context, committed only on success)",
    "one subscription month (no month roll-over inside a behaviour); EpochsToSave=3, EpochBlocks=20 after the memory window has caught up with the parameter",
    "per-relay acceptance/rewardedCU are read from the chain's own relay_payment event and cross-checked against the epoch counters by C03_Step",
    "numbers above 10^6 are logged as 10^6 (TLC 32-bit integers); CU values are <= 1000",
]
