"""C14 Fixation store behaves like a versioned, ref-counted map.  (DESIGN.md section 4, C14)

M: FixationStore.tla (code-level transcription + abstract reference map `ref`) exhaustively with an
   operation budget: Refines (all Find/Get answers equal the reference's), GCSafe, ResAgree,
   RefcountExact, NoPanic, PutNotRefused + internal sanity.  The verdict configs model the code AS IT
   IS: F16 and F18 are fixed in the repository (Fix16 = Fix18 = TRUE), F17/F17b are open known
   findings (Fix17 = Fix17b = FALSE): the ghost `kf` is set by the operation that leaves a delete
   timer behind; the invariants must hold up to there.  FixationStore_fixed.cfg (all TRUE, + NoKnown)
   is the design-level demonstration that the F17 repair restores every invariant.
   FixationStore_cand.cfg emits every state in which the as-is design panics, refuses a legal Put
   or trips a known-finding cause: candidate behaviours.
G: candidates (shortest per class, extended by ticks) + repository playbooks + TLC -simulate behaviours.
R: harness/cmd/fixationstore replays them into the real FixationStore; all observables after every step.
V: TLC validates the recorded trace against Trace_FixationStore in Conf mode on the observables
   Find/Get/Has/Versions/result class, judging every behaviour on its own.  A rejection or a panic is a
   violation (after re-execution).  A behaviour whose step is recognised BY THE SPEC as the cause of a
   known finding (op pattern: DelEntry trimming / PutEntry cancelling a future version that carries
   a pending delete) and whose real store then really holds a delete timer for a missing version is
   reported with the narrow known-finding signature; its remaining steps are skipped.
"""
import os
import re
import vlib

LEVEL = "model_checking"

STALE = 2
INDICES = ["a", "b"]
QMAX = 17          # = MaxBlock + 1 of Trace_FixationStore.cfg / FixationStore_sim.cfg
KINDS = ["append", "modify", "get", "put", "del", "tick"]
KF_SIG = {"F17": "dangling-delete-timer@del-earlier-block-trims-future-version-with-pending-delete",
          "F17b": "dangling-delete-timer@put-cancels-future-version-with-pending-delete"}
KF_EV = {"F17": "del", "F17b": "put"}


def S(a, x="", b=0, d=0):
    return {"a": a, "x": x, "b": b, "d": d}


T = S("tick")

# the repository's own playbooks (x/fixationstore/types/fixationstore_test.go), scaled to stale = 2;
# "append with a later block" of the playbooks = advance (ticking) to that block, then append
PLAYBOOKS = {
    # TestGetAndPutEntry
    "get-put": [S("append", "a", 1, 1), S("get", "a"), T, T, T, S("append", "a", 4, 2), S("put", "a", 1),
                T, T, T, S("append", "a", 7, 1), T],
    # TestDelEntry
    "del": [S("append", "a", 1, 1), S("get", "a"), T, T, S("append", "a", 3, 2), S("get", "a"), T, T,
            S("del", "a", 6), S("del", "a", 7), S("get", "a"), S("append", "a", 8, 1), T, S("get", "a"),
            T, T, S("append", "a", 8, 1), T],
    # TestPutFutureEntry + TestDelEntryWithFuture
    "future": [S("append", "a", 1, 1), S("append", "a", 4, 2), T, S("put", "a", 4), S("append", "a", 5, 2),
               S("append", "a", 7, 1), S("del", "a", 6), T, T, T, T, T, T, T],
    # TestRemoveStaleEntries (stale marker rule)
    "stale-markers": [S("append", "a", 1, 1), S("get", "a"), T, S("append", "a", 2, 2), T, S("append", "a", 3, 1), T,
                      S("append", "a", 4, 2), T, T, T, S("put", "a", 1), T, T, T],
}


def _panic_class(msg):
    msg = msg or ""
    for pat, name in (("no such timer", "no-such-timer"), ("getEntry failed", "getentry-unknown"),
                      ("invalid refcount", "refcount-zero"), ("smaller than ctx block", "addtimer-past"),
                      ("future entry callback invalid state", "future-on-deleted"),
                      ("snapshot:", "snapshot")):
        if pat in msg:
            return name
    return "other"


def _panic_sig(prev, row):
    """panic@<op>:<class>[:<context>] - context names the input class from the state before the op."""
    cls = _panic_class(row.get("panics"))
    ctxs = ""
    if prev is not None:
        if row["ev"] == "del" and row["b"] == prev["now"] and row["b"] in prev["vers"].get(row["x"], []):
            ctxs = ":version-at-ctx-block"
        if row["ev"] == "tick":
            dangling = [t for t in prev["timers"] if t[1] == 2 and t[2] not in prev["vers"].get(t[3], [])]
            if dangling:
                ctxs = ":dangling-delete-timer"
        if row["ev"] == "put":
            e = [v for v in prev["ents"].get(row["x"], []) if v[0] == row["b"]]
            if e and e[0][1] == 0:
                ctxs = ":refcount-already-zero"
    return "panic@%s:%s%s" % (row["ev"], cls, ctxs)


def _harness(ctx, behs, tag):
    binp = vlib.go_build("fixationstore")
    bpath = os.path.join(ctx.work, tag + "_behaviours.json")
    tpath = os.path.join(ctx.work, tag + "_trace.ndjson")
    vlib.write_json(bpath, behs)
    vlib.run_harness(binp, [bpath, tpath, QMAX, STALE, ",".join(INDICES)])
    rows = vlib.read_ndjson(tpath)
    chunks = vlib.split_traces(rows)
    if len(chunks) != len(behs):
        raise vlib.Infra("harness produced %d traces for %d behaviours" % (len(chunks), len(behs)))
    return chunks


def _tlc(ctx, chunks, tag, match_int="0"):
    tpath = os.path.join(ctx.work, tag + "_val.ndjson")
    vlib.write_ndjson(tpath, [r for c in chunks for r in c])
    res = vlib.tlc_trace(ctx, "Trace_FixationStore", "Trace_FixationStore.cfg", tpath,
                         env={"VERIF_MATCH_INT": match_int}, tag=tag, timeout=1800)
    return res


def _reject_info(res, chunks):
    """-> (chunk index, 1-based line inside the chunk, kind, detail)"""
    if res["violated"] == "postcondition":
        line = (res["reached"] or 0) + 1
        kind, detail = "reject", "not-enabled"
        m = re.findall(r'<<"DIAG", (\d+), \{([^}]*)\}>>', res["out"])
        if m and int(m[-1][0]) == line:
            names = sorted(x.strip().strip('"') for x in m[-1][1].split(","))
            kind, detail = "diverge", "+".join(names)
    else:
        line = vlib.violated_line(res) or (res["reached"] or 1)
        kind, detail = "invariant", (res["violated"] or "").split(":")[-1]
    n = 0
    for ci, c in enumerate(chunks):
        if line <= n + len(c):
            return ci, line - n, kind, detail
        n += len(c)
    return len(chunks) - 1, len(chunks[-1]), kind, detail


def _dangling(row):
    """delete timers of the real store that refer to a version that does not exist"""
    return [t for t in row["timers"] if t[1] == 2 and t[2] not in row["vers"].get(t[3], [])]


def _examine(ctx, behs, tag, max_rounds=4):
    """Replay + validate, every behaviour judged on its own.
    Returns (findings, n_validated, stats). A finding = dict(sig, beh, event, kind)."""
    chunks = _harness(ctx, behs, tag)
    findings = []
    stats = {"events": 0, "kinds": {k: 0 for k in KINDS}, "gc": 0, "ok_append": 0, "ok_del": 0, "found_get": 0,
             "err": 0, "stale_hidden": 0, "known_finding_behaviours": 0}
    validated = 0
    rounds = 0
    rest = list(enumerate(chunks))
    while rest:
        cs = [c for _, c in rest]
        # first try observables + internal bookkeeping in one pass; if that is rejected the verdict
        # pass (observables only) decides and the internal mismatch is reported as drift
        res = _tlc(ctx, cs, "%s_r%d_int" % (tag, rounds), match_int="1") if rounds == 0 else None
        if res is None or not res["accepted"]:
            res1 = res
            res = _tlc(ctx, cs, "%s_r%d" % (tag, rounds))
            if res["accepted"] and res1 is not None:
                ctx.drift.append("internal bookkeeping (refcount/flags/timers/index liveness) differs from the model at "
                                 "validated line %s of %s" % ((res1["reached"] or 0) + 1, tag))
        # known-finding causes recognised by the spec: line -> class
        starts = []
        n = 0
        for c in cs:
            starts.append(n)
            n += len(c)
        kf_at = {}
        for why, line in re.findall(r'<<"KF", "(\w+)", (\d+)>>', res["out"]):
            line = int(line)
            ci = max(i for i, st in enumerate(starts) if st < line)
            kf_at[ci] = (why, line - starts[ci])
        if res["accepted"]:
            ok = list(range(len(rest)))
            nxt = []
        else:
            ci, off, kind, detail = _reject_info(res, cs)
            bi, c = rest[ci]
            ev = c[off - 1] if off - 1 < len(c) else {}
            if ev.get("panic"):
                kind = "panic"
                sig = _panic_sig(c[off - 2] if off >= 2 else None, ev)
            else:
                sig = "%s@%s:%s" % (kind, ev.get("ev"), detail)
            findings.append({"sig": sig, "beh": behs[bi], "event": ev, "kind": kind})
            ok = list(range(ci))
            nxt = rest[ci + 1:]
        for ci in ok:
            bi, c = rest[ci]
            upto = len(c)
            if ci in kf_at:
                why, off = kf_at[ci]
                row = c[off - 1]
                if row["ev"] != KF_EV.get(why) or not _dangling(row):
                    raise vlib.Infra("the model (Fix17/Fix17b = FALSE) flags %s at step %d of a behaviour but the real store holds "
                                     "no delete timer for a missing version there: the code no longer matches the as-is "
                                     "model, switch Fix17/Fix17b in the cfgs (%s)" % (why, off - 1, vlib.json.dumps(behs[bi])[:300]))
                later = ""
                if c[-1].get("panic"):
                    later = "; %d steps later the stale timer hits: panic in %s (%s)" % (
                        len(c) - off, c[-1]["ev"], (c[-1].get("panics") or "")[:60])
                findings.append({"sig": KF_SIG[why], "beh": behs[bi], "event": row, "kind": "known-cause",
                                 "dangling": _dangling(row), "later": later})
                stats["known_finding_behaviours"] += 1
                upto = off
            else:
                validated += 1
            stats["events"] += upto - 1
            for i, r in enumerate(c[1:upto], 1):
                stats["kinds"][r["ev"]] += 1
                p = c[i - 1]
                if r["ev"] == "tick" and any(len(r["vers"][x]) < len(p["vers"][x]) for x in INDICES):
                    stats["gc"] += 1
                if r["ev"] == "append" and r["res"] == "ok":
                    stats["ok_append"] += 1
                if r["ev"] == "del" and r["res"] == "ok":
                    stats["ok_del"] += 1
                if r["ev"] == "get" and r["res"] == "found":
                    stats["found_get"] += 1
                if r["res"] == "err":
                    stats["err"] += 1
                # a version that is present but no longer findable at its own block (stale marker / deleted)
                for x in INDICES:
                    if any(v <= QMAX and r["find"][x][v][0] != v for v in r["vers"][x]):
                        stats["stale_hidden"] += 1
                        break
        rest = nxt
        rounds += 1
        if rounds >= max_rounds and rest:
            ctx.notes.append("%s: %d behaviours left unvalidated after %d rejections" % (tag, len(rest), rounds))
            break
    return findings, validated, stats


def _reproduce(ctx, f, n):
    """Re-execute the single behaviour in a fresh harness process; it must fail the same way."""
    fs, _, _ = _examine(ctx, [f["beh"]], "repro%d" % n, max_rounds=1)
    for g in fs:
        if g["sig"] == f["sig"]:
            return g
    return None


def _report(ctx, findings):
    by_sig = {}
    for f in findings:
        cur = by_sig.get(f["sig"])
        if cur is None or len(f["beh"]) < len(cur["beh"]):
            by_sig[f["sig"]] = f
    for n, (sig, f) in enumerate(sorted(by_sig.items())):
        if f["kind"] == "reject":
            raise vlib.Infra("replayed operation is not enabled in the spec (%s): generator/driver drift" % sig)
        g = _reproduce(ctx, f, n)
        if g is None:
            raise vlib.Infra("counter-example not reproduced: %s" % sig)
        ev = {k: g["event"].get(k) for k in ("ev", "x", "b", "d", "res", "panic", "panics", "now", "step")}
        if g["kind"] == "known-cause":
            what = ("legal operation (step %s of %d) %s leaves delete timer(s) %s for a version that no longer exists%s"
                    % (ev.get("step"), len(f["beh"]), vlib.json.dumps(ev)[:200], g["dangling"], g["later"]))
        else:
            what = ("real fixation store deviates from FixationStore.tla on a legal operation sequence (step %s of %d): %s"
                    % (ev.get("step"), len(f["beh"]), vlib.json.dumps(ev)[:500]))
        ctx.violation(sig, what, {"behaviours": [f["beh"]], "stale": STALE, "indices": INDICES})


def _candidates(ctx):
    """Exhaustive run of the design AS IT IS: every panic / refused legal Put / known-finding cause it can
    reach within the budget is a candidate behaviour for the real code (extended by ticks so that the
    consequence shows on the real store)."""
    res = vlib.tlc_emit(ctx, "FixationStore", "FixationStore_cand.cfg", timeout=ctx.pick(900, 1800),
                        workers=int(os.environ.get("VERIF_TLC_WORKERS", vlib.NCPU)), tag="FixationStore_cand")
    groups = {}
    for c in res["behaviours"]:
        h = c["h"]
        key = (c["why"], h[-1]["a"], sum(1 for s in h if s["a"] == "get") > 0,
               sum(1 for s in h if s["a"] == "put") > 0)
        groups.setdefault(key, []).append(h)
    picked = []
    for key in sorted(groups):
        hs = sorted(groups[key], key=lambda h: (len(h), vlib.json.dumps(h, sort_keys=True)))
        picked += [h + [T] * 5 for h in hs[:ctx.pick(4, 12)]]
    ctx.notes.append("design as it is (Fix16/18 = TRUE, Fix17/17b = FALSE): %d bad states in %d distinct states, classes %s" % (
        len(res["behaviours"]), res["distinct"], sorted({k[0] + "@" + k[1] for k in groups})))
    return picked, res


def run(ctx):
    mc = vlib.tlc_mc(ctx, "FixationStore", ctx.pick("FixationStore_mcq.cfg", "FixationStore_mc.cfg"),
                     timeout=ctx.pick(600, 3000))
    if mc["violated"]:
        raise vlib.Infra("design-level spec (code as it is; invariants up to a known-finding cause) violates %s; "
                         "spec must be repaired (see %s)" % (mc["violated"], mc["outfile"]))
    ctx.add_mc("FixationStore as it is, exhaustive (1 index, %s)" % ctx.pick("4 ops", "6 ops"), mc)
    fx = vlib.tlc_mc(ctx, "FixationStore", "FixationStore_fixed.cfg", timeout=600)
    if fx["violated"]:
        raise vlib.Infra("design-level spec with the F17 repair violates %s (see %s)" % (fx["violated"], fx["outfile"]))
    ctx.add_mc("FixationStore with the F17/F17b repair: all invariants + NoKnown (1 index, 4 ops)", fx)

    cands, cres = _candidates(ctx)
    ctx.add_mc("FixationStore as-it-is candidate search (1 index, 6 ops)", cres)

    sim = vlib.tlc_sim(ctx, "FixationStore", "FixationStore_sim.cfg", num=ctx.pick(200, 2500), depth=20,
                       timeout=ctx.pick(600, 1800))
    sims = sim["behaviours"]
    behs = cands + [PLAYBOOKS[k] for k in sorted(PLAYBOOKS)] + sims
    ctx.cov["evaluations"] = len(behs)
    nontriv = {vlib.json.dumps(b) for b in behs
               if sum(1 for s in b if s["a"] in ("append", "del", "put", "get")) >= 3 and any(s["a"] == "tick" for s in b)}
    ctx.cov["distinct_nontrivial"] = len(nontriv)
    ctx.cov["rule"] = ("behaviours = (a) shortest histories per class leading the as-found design to a panic / refused Put "
                       "(exhaustive TLC, 6 ops), (b) 4 repository playbooks, (c) TLC -simulate runs of GenNext (14 steps, "
                       "2 indices, legal ops only); non-trivial = at least 3 append/del/get/put and one tick; distinct by full action list")
    ctx.sample(sims[0])
    if cands:
        ctx.sample(cands[0])
    ctx.assumptions += ["TLC bounded constants (specs/FixationStore_mc*.cfg: one index, blocks <= 6, stale period 2, "
                        "append/delete targets within ctx-1..ctx+2, <= 2 references per version, operation budget)",
                        "legal use = L1-L4 of DESIGN.md C14 (generated by the spec's Next/GenNext)",
                        "two indices only in simulation (indices interact only through timer order)",
                        "in-memory IAVL store behaves like the production store; stale period is constant"]
    findings, validated, st = _examine(ctx, behs, "main")
    ctx.cov["traces_validated_against_impl"] += validated
    ctx.cov["trace_events"] = st["events"]
    ctx.cov["trace_stats"] = st
    if all(f["kind"] == "known-cause" for f in findings):
        # non-vacuity of what was validated
        missing = [k for k in KINDS if st["kinds"][k] == 0]
        if missing or st["gc"] == 0 or st["ok_del"] < 5 or st["ok_append"] < 20 or st["found_get"] < 5 \
                or st["stale_hidden"] == 0 or st["err"] == 0:
            raise vlib.Infra("vacuous coverage: %s" % vlib.json.dumps(st))
    _report(ctx, findings)


def replay(ctx, path):
    with open(path) as f:
        obj = vlib.json.load(f)
    findings, validated, st = _examine(ctx, obj["behaviours"], "replay")
    ctx.cov["traces_validated_against_impl"] += validated
    for f in findings:
        ev = {k: f["event"].get(k) for k in ("ev", "x", "b", "d", "res", "panic", "panics", "now", "step")}
        ctx.violation(f["sig"], "replayed behaviour still fails: %s" % vlib.json.dumps(ev)[:500],
                      {"behaviours": [f["beh"]], "stale": STALE, "indices": INDICES})
