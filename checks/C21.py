"""C21 Reward pools release funds on schedule and within balance.  (DESIGN.md section 4, C21)

M: Rewards.tla exhaustively (pools focus): refill = burn(rate*validators-dist), burn(all providers-dist),
   alloc/monthsLeft into each, leftover -> dist; block reward <= pool; bonus <= pool; contributions go
   to the leftover pool only during the last Day before the refill.  Rewards_f3.cfg demonstrates at
   design level that the rule as written in providers.go (FixF3 = FALSE) breaks LeftoverOnlyLastDay.
G: TLC -simulate emits timed histories (buy / relay / fund / setdata / blocks / jump / jump relative
   to the refill time).
R: harness/t/rewards replays them into the real chain (testutil Tester through chainx); every block is
   logged as the sub-events the chain emitted (contributions, payouts, bonus, IPRPC, refill) plus the
   projected pool balances / timers read back through the keepers and the bank.
V: TLC validates the trace against Trace_Rewards (Obs mode: the model operators give the expected value
   of every observable, compared per observable; state continues from the real state).

This module also holds the machinery shared with C42 (same spec, same driver, other invariants).
"""
import json
import os
import vlib

LEVEL = "model_checking"
BURN = [1, 2]          # LeftoverBurnRate used by the driver; must match Trace_Rewards_*.cfg
QUOTA = 2000
MAXID = 12
DAY = 86400


def dedupe_prefix(behs):
    """-simulate prints several alternatives of the last step: keep one behaviour per prefix."""
    seen = {}
    for b in behs:
        seen.setdefault(json.dumps(b[:-1]), b)
    return list(seen.values())


def generate(ctx, cfg, num, depth, tag):
    sim = vlib.tlc_sim(ctx, "Rewards", cfg, num=num, depth=depth, tag=tag)
    return dedupe_prefix(sim["behaviours"])


def drive(ctx, behs, tag):
    binp = vlib.go_test_build("rewards")
    ipath = os.path.join(ctx.work, tag + "_in.json")
    tpath = os.path.join(ctx.work, tag + "_trace.ndjson")
    vlib.write_json(ipath, {"seed": ctx.seed, "burn": BURN, "quota": QUOTA, "maxid": MAXID, "behaviours": behs})
    if os.path.exists(tpath):
        os.remove(tpath)
    vlib.run_test_harness(binp, {"VERIF_IN": ipath, "VERIF_OUT": tpath}, timeout=1800)
    rows = vlib.read_ndjson(tpath)
    if not rows:
        raise vlib.Infra("driver wrote an empty trace")
    return tpath, rows


def bucket(rows, line):
    """time bucket of trace line `line` (1-based): remaining time to the refill at that block."""
    ra = t = None
    for r in rows[:line - 1][::-1]:
        if "ra" in r and "t" in r:
            ra, t = r["ra"], r["t"]
            break
    if ra is None:
        return "?"
    rem = ra - t
    if rem > DAY:
        return ">24h-before-refill"
    if rem == DAY:
        return "=24h-before-refill"
    if rem > 0:
        return "<24h-before-refill"
    return "at-refill"


def validate(ctx, behs, tag, cfg, pid):
    """Replay behaviours, validate the trace. Returns (None, rows) or (bad dict, rows)."""
    tpath, rows = drive(ctx, behs, tag)
    res = vlib.tlc_trace(ctx, "Trace_Rewards", cfg, tpath, tag=tag + "_v", timeout=1800)
    for m in vlib.re.findall(r'<<"DRIFT", (\d+), (-?\d+), (TRUE|FALSE), (TRUE|FALSE)>>', res["out"]):
        ctx.drift.append("line %s: subscription module balance differs from the model by %s (over=%s bf1=%s)" % m)
        if m[3] == "FALSE":
            raise vlib.Infra("bonded target factor is not 1 in the driver chain (model assumption broken)")
        if m[2] == "TRUE":
            raise vlib.Infra("IPRPC reward ids left the logged window")
    if res["accepted"]:
        return None, rows
    if res["violated"] == "postcondition":
        raise vlib.Infra("trace spec could not process trace line %s (see %s)" % ((res["reached"] or 0) + 1, res["outfile"]))
    if not (res["violated"] or "").startswith("invariant:" + pid + "_"):
        raise vlib.Infra("trace validation stopped on %s (see %s)" % (res["violated"], res["outfile"]))
    inv = res["violated"].split(":", 1)[1]
    line = vlib.violated_line(res) or (res["reached"] or 1)
    bi, chunk, off = vlib.locate_trace(rows, line)
    ev = rows[line - 1] if line - 1 < len(rows) else {}
    sig = "%s@%s" % (inv, ev.get("ev"))
    if inv in ("C21_DestPool", "C21_LeftoverWindow"):
        b = bucket(rows, line)
        sig = "%s@%s:%s-%s" % (inv, ev.get("ev"), {"vl": "leftover", "vd": "distribution"}.get(ev.get("pool"), "leftover"), b)
    if ev.get("panic"):
        sig = "panic@%s" % ev.get("ev")
    slim = {k: v for k, v in ev.items() if k not in ("ipr", "tot", "cu", "staked")}
    ctxrows = [{k: v for k, v in r.items() if k in ("ev", "t", "t0", "ra", "pl", "v", "c", "pool", "from", "rw", "funds", "F", "ml", "vd", "pd")}
               for r in rows[max(0, line - 4):line]]
    return {"sig": sig, "inv": inv, "beh": behs[bi] if 0 <= bi < len(behs) else None, "line": off,
            "event": slim, "context": ctxrows}, rows


def coverage(rows):
    cov = {"refills": 0, "contrib_far": 0, "contrib_near": 0, "contrib_refill": 0, "payouts": 0, "bonus_paid": 0,
           "tx_ok": 0, "blocks": 0, "iprpc_served": 0, "iprpc_rolled": 0, "fund_ok": 0, "relay_elig": 0,
           "relay_regular": 0, "unstake_ok": 0, "panics": 0}
    ra = t = 0
    isubs = []
    for r in rows:
        ev = r["ev"]
        if ev == "c" and r.get("from") == "sb" and r.get("v", 0) > 0:
            rem = ra - t
            cov["contrib_far" if rem > DAY else "contrib_near"] += 1
        elif ev == "c" and r.get("from") == "ip" and r.get("v", 0) > 0:
            cov["contrib_refill"] += 1
        elif ev == "refill":
            cov["refills"] += 1
        elif ev == "pay":
            cov["payouts"] += 1
        elif ev == "bonus" and sum(r["rw"].values()) > 0:
            cov["bonus_paid"] += 1
        elif ev == "iprpc" and sum(r["rw"].values()) > 0:
            cov["iprpc_served"] += 1
        elif ev == "roll" and sum(r["funds"].values()) > 0:
            cov["iprpc_rolled"] += 1
        elif ev in ("blk", "q"):
            cov["blocks"] += r.get("n", 1)
        if ev in ("fund", "relay", "buy", "setdata", "unstake") and r.get("ok"):
            cov["tx_ok"] += 1
            if ev == "fund":
                cov["fund_ok"] += 1
            if ev == "unstake":
                cov["unstake_ok"] += 1
            if ev == "relay":
                cov["relay_elig" if r.get("c") in isubs else "relay_regular"] += 1
        if r.get("panic"):
            cov["panics"] += 1
        if "ra" in r and "t" in r:
            ra, t = r["ra"], r["t"]
        if "isubs" in r:
            isubs = r["isubs"]
    return cov


def report(ctx, pid, bad, what):
    ctx.violation(bad["sig"], "%s: trace step %d %s; context %s" % (
        what, bad["line"], json.dumps(bad["event"], sort_keys=True)[:500], json.dumps(bad["context"], sort_keys=True)[:1500]),
        {"behaviours": [bad["beh"]], "property": pid, "seed": ctx.seed})


def run_family(ctx, pid, mc_cfgs, sim_cfg, num, depth, trace_cfg, need, what):
    required = {"pools": ["SubBuy", "Payout", "Advance"], "iprpc": ["SetData", "FundIprpc", "Relay", "Unstake", "Advance"]}
    for name, cfg, to in mc_cfgs:
        mc = vlib.tlc_mc(ctx, "Rewards", cfg, timeout=to, tag="mc_" + name, coverage=not ctx.quick)
        if not ctx.quick:
            dead = [a for a in required.get(name, []) if a in mc.get("zero_actions", [])]
            if dead:
                raise vlib.Infra("vacuous exhaustive run %s: actions never taken: %s" % (cfg, dead))
        if mc["violated"]:
            raise vlib.Infra("design-level spec violates %s under %s; spec must be repaired (see %s)" % (mc["violated"], cfg, mc["outfile"]))
        ctx.add_mc("Rewards %s (%s)" % (name, cfg), mc)
    behs = generate(ctx, sim_cfg, num, depth, "sim")
    ctx.cov["evaluations"] = len(behs)
    ctx.sample(behs[0][:12])
    ctx.assumptions += [
        "TLC bounded constants (specs/Rewards_*mc*.cfg); chain driver: 2 specs, 3 providers with equal stake, 2 consumers, 1 validator",
        "pool balances are reset to small values through the mock bank right after chain construction (allocation = 2000 x monthsLeft, distribution = 2000) so that amounts fit TLC integers",
        "bonded target factor = 1 (bonded ratio below MinBondedTarget in the test chain); LeftoverBurnRate = 1/2; default participation parameters",
        "amounts of individual contributions / payouts / bonus are taken from the SDK events the keepers emit and cross-checked against bank balance deltas at every block",
        "mock bank keeper and testutil block loop stand for the production bank / module manager",
    ]
    bad, rows = validate(ctx, behs, "sim", trace_cfg, pid)
    if bad:
        again, _ = validate(ctx, [bad["beh"]], "repro", trace_cfg, pid)
        if again is None:
            raise vlib.Infra("counter-example not reproduced: %s" % bad["sig"])
        report(ctx, pid, again, what)
        return
    cov = coverage(rows)
    ctx.cov["traces_validated_against_impl"] += len(behs)
    ctx.cov["trace_events"] = len(rows)
    ctx.cov["distinct_nontrivial"] = len({json.dumps(b) for b in behs})
    ctx.cov["driver"] = cov
    for k, n in need.items():
        if cov.get(k, 0) < n:
            raise vlib.Infra("vacuous coverage: %s = %d < %d (%s)" % (k, cov.get(k, 0), n, cov))


def replay_family(ctx, path, trace_cfg, pid, what):
    with open(path) as f:
        obj = json.load(f)
    ctx.seed = obj.get("seed", ctx.seed)
    bad, _ = validate(ctx, obj["behaviours"], "replay", trace_cfg, pid)
    if bad:
        report(ctx, pid, bad, what)


NEED = {"refills": 4, "contrib_far": 2, "contrib_near": 1, "payouts": 3, "tx_ok": 30, "blocks": 500}
WHAT = "real reward pools deviate from Rewards.tla"


def run(ctx):
    mcs = [("pools", ctx.pick("Rewards_mcq.cfg", "Rewards_mc.cfg"), ctx.pick(600, 2400))]
    # design-level demonstration: the rule as written in providers.go violates the leftover window
    f3 = vlib.tlc_mc(ctx, "Rewards", "Rewards_f3.cfg", timeout=600, tag="mc_f3")
    if f3["violated"] != "invariant:LeftoverOnlyLastDay":
        raise vlib.Infra("Rewards_f3.cfg (code rule for isEndOfMonth) was expected to violate LeftoverOnlyLastDay, got %s" % f3["violated"])
    ctx.notes.append("design level: isEndOfMonth as written (now + day > remaining) violates LeftoverOnlyLastDay (Rewards_f3.cfg)")
    ctx.cov["rule"] = ("behaviours = TLC -simulate runs of Rewards.tla GenNext (60 steps over buy/setdata/fund/relay/blocks/jump/"
                       "jump-relative-to-refill); one behaviour kept per distinct 59-step prefix; non-trivial = distinct full action lists; "
                       "driver coverage (refills, contributions >24h / <24h before the refill, payouts) is asserted")
    run_family(ctx, "C21", mcs, "Rewards_sim.cfg", ctx.pick(14, 80), 61, "Trace_Rewards_C21.cfg", NEED, WHAT)


def replay(ctx, path):
    replay_family(ctx, path, "Trace_Rewards_C21.cfg", "C21", WHAT)
