"""C29 Provider reward proofs keep the best proof and are claimed in window.  (DESIGN.md section 4, C29)

M: RewardServer.tla exhaustively (proofs map, failed-retry map keyed by session id only (F13), DB snapshot,
   tx results, paid events, crash/restart between any two actions) - invariants KeepsBest, SubmitsBest,
   InWindow, Bounded (<= 1 + maxRetries submissions per lifetime), RestoresSnapshot, NoDupInUpdate.
G: TLC -simulate emits behaviours (proof, snap, update(cur, earliest, okNew, okRetry), paid, restart).
R: harness/cmd/rewardserver replays them into the real RewardServer (mock RewardsTxSender, RewardDB over an
   on-disk Badger DB; restart = close DB, new server on the same directory via AddDataBase).
V: TLC validates the recorded trace against Trace_RewardServer: Conf mode on the observables C29 names
   (SendNewProof answers, TxRelayPayment calls, RewardDB contents); the invariants are evaluated on every
   accepted state.
"""
import os
import vlib

LEVEL = "model_checking"


def _validate(ctx, behs, tag):
    binp = vlib.go_build("rewardserver")
    bpath = os.path.join(ctx.work, tag + "_behaviours.json")
    tpath = os.path.join(ctx.work, tag + "_trace.ndjson")
    vlib.write_json(bpath, behs)
    vlib.run_harness(binp, [bpath, tpath], timeout=1200)
    rows = vlib.read_ndjson(tpath)
    res = vlib.tlc_trace(ctx, "Trace_RewardServer", "Trace_RewardServer.cfg", tpath,
                         tag=tag)
    if not res["accepted"]:
        if res["violated"] == "postcondition":
            line = (res["reached"] or 0) + 1
            kind = "conf-reject"
        else:
            line = vlib.violated_line(res) or (res["reached"] or 1)
            kind = res["violated"]
        bi, chunk, off = vlib.locate_trace(rows, line)
        beh = behs[bi] if 0 <= bi < len(behs) else None
        ev = rows[line - 1] if line - 1 < len(rows) else {}
        sig = "%s@%s" % (kind, ev.get("ev"))
        if ev.get("panic"):
            sig = "panic@%s" % ev.get("ev")
        return {"sig": sig, "beh": beh, "line": off, "event": ev, "kind": kind}
    ctx.cov["traces_validated_against_impl"] += len(behs)
    ctx.cov["trace_events"] = ctx.cov.get("trace_events", 0) + len(rows)
    return None


def _coverage(ctx, behs):
    kinds = {}
    for b in behs:
        for s in b:
            k = s["a"]
            if k == "update":
                k += ":" + ("ok" if s["okNew"] else "fail")
            kinds[k] = kinds.get(k, 0) + 1
    need = ["proof", "snap", "update:ok", "update:fail", "paid", "restart"]
    missing = [k for k in need if not kinds.get(k)]
    if missing:
        raise vlib.Infra("generator did not exercise action kinds %s" % missing)
    ctx.cov["action_kinds"] = kinds


def _trace_coverage(ctx, path, quick):
    rows = vlib.read_ndjson(path)
    ntx = sum(len(r["txs"]) for r in rows)
    nretry = sum(1 for r in rows for t in r["txs"] if t["kind"] == "retry")
    nfail = sum(1 for r in rows for t in r["txs"] if not t["ok"])
    nrestored = 0
    for i, r in enumerate(rows):
        if r["ev"] == "restart" and r["db"]:
            nrestored += 1
    # most submissions of one proof within one process lifetime (retry exhaustion = 3)
    maxsub, cnt = 0, {}
    for r in rows:
        if r["ev"] in ("reset", "restart"):
            cnt = {}
        for t in r["txs"]:
            for p in t["proofs"]:
                k = (p["e"], p["c"], p["s"], p["cu"])
                cnt[k] = cnt.get(k, 0) + 1
                maxsub = max(maxsub, cnt[k])
    ctx.cov["max_submissions_of_one_proof"] = maxsub
    ctx.cov["tx_calls"] = ntx
    ctx.cov["retry_tx_calls"] = nretry
    ctx.cov["failed_tx_calls"] = nfail
    ctx.cov["restarts_with_nonempty_db"] = nrestored
    if ntx < (20 if quick else 100) or nretry < 3 or nfail < 5 or nrestored < 3 or maxsub < 3:
        raise vlib.Infra("vacuous replay: tx=%d retry=%d failed=%d restarts-with-db=%d max-submissions=%d" % (ntx, nretry, nfail, nrestored, maxsub))


def _mc(ctx):
    mc = vlib.tlc_mc(ctx, "RewardServer", ctx.pick("RewardServer_mcq.cfg", "RewardServer_mc.cfg"),
                     timeout=ctx.pick(600, 3000), coverage=not ctx.quick)
    if mc["violated"]:
        raise vlib.Infra("design-level spec violates %s; spec must be repaired (see %s)" % (mc["violated"], mc["outfile"]))
    ctx.add_mc("RewardServer exhaustive", mc)
    if not ctx.quick:
        dead = [a for a in mc.get("zero_actions", []) if a in ("Proof", "Snap", "Update", "Paid", "Restart")]
        if dead:
            raise vlib.Infra("vacuous exhaustive run: actions never taken: %s" % dead)


def run(ctx):
    if os.environ.get("VERIF_DEV_SKIP_MC") != "1":   # development knob (mutant runs): the exhaustive run does not depend on the repo
        _mc(ctx)
    sim = vlib.tlc_sim(ctx, "RewardServer", "RewardServer_sim.cfg", num=ctx.pick(60, 300), depth=17, timeout=900)
    behs = [b for b in sim["behaviours"] if b]
    _coverage(ctx, behs)
    ctx.cov["evaluations"] = len(behs)
    nontriv = {vlib.json.dumps(b) for b in behs
               if any(s["a"] == "update" for s in b) and any(s["a"] == "proof" for s in b)}
    ctx.cov["distinct_nontrivial"] = len(nontriv)
    if len(nontriv) < ctx.pick(30, 150):
        raise vlib.Infra("too few non-trivial behaviours: %d" % len(nontriv))
    ctx.cov["rule"] = ("behaviours = TLC -simulate runs of RewardServer.tla GenNext (16 ops over proof/snap/update/paid/restart); "
                       "non-trivial = at least one proof and one epoch update; distinct by full action list")
    ctx.sample(behs[0])
    ctx.assumptions += ["proofs arrive only for epochs still valid for use (the provider session manager rejects older epochs first)",
                        "chain memory is longer than the claim window (earliest <= current - window)",
                        "one spec id / one DB; single-digit epochs (DeleteEpochRewards deletes by decimal prefix, see notes)",
                        "window = 1, maxRetries = 3 (code constant), 2 consumers, session ids {1, 2} with one id shared by both consumers",
                        "a crash is modelled as closing Badger and reopening it (no torn writes); arrival concurrency is not scheduled (sequential arrivals in all orders)"]
    bad = _validate(ctx, behs, "sim")
    if bad:
        again = _validate(ctx, [bad["beh"]], "repro")
        if again is None:
            raise vlib.Infra("counter-example not reproduced: %s" % bad["sig"])
        ctx.violation(again["sig"], "real reward server deviates from RewardServer.tla / invariant at step %d: %s" % (
            again["line"], vlib.json.dumps(again["event"])[:700]), {"behaviours": [bad["beh"]]})
        return
    _trace_coverage(ctx, os.path.join(ctx.work, "sim_trace.ndjson"), ctx.quick)


def replay(ctx, path):
    with open(path) as f:
        obj = vlib.json.load(f)
    bad = _validate(ctx, obj["behaviours"], "replay")
    if bad:
        ctx.violation(bad["sig"], "replayed behaviour still fails: %s" % vlib.json.dumps(bad["event"])[:600],
                      {"behaviours": [bad["beh"]]})
