"""C29 Provider reward proofs keep the best proof and are claimed in window.  (DESIGN.md section 4, C29)

M: RewardServer.tla exhaustively (proofs map, failed-retry map keyed by session id only (F13), DB snapshot,
   tx results, paid events, crash/restart between any two actions) - invariants KeepsBest, SubmitsBest,
   InWindow, Bounded (<= 1 + maxRetries submissions per lifetime), RestoresSnapshot, NoDupInUpdate.
G: TLC -simulate emits behaviours (proof, snap, update(cur, earliest, okNew, okRetry), paid, restart).
R: harness/cmd/rewardserver replays them into the real RewardServer (mock RewardsTxSender, RewardDB over an
   on-disk Badger DB; restart = close DB, new server on the same directory via AddDataBase).
C: concurrency clause ("whatever the arrival order or concurrency"): RewardServer.tla models concurrent
   SendNewProof calls step by step; RewardServer_conc.cfg (compare+store in one critical section, as the
   code is) holds, RewardServer_split.cfg (check-then-act) must violate KeepsBest (design-level
   sensitivity).  The driver's -stress mode runs rounds of G goroutines released by a barrier on the same
   epoch/consumer/session with different CuSums; after quiescence the kept (snapshotted) and the submitted
   proof of every round are validated by TLC against Trace_RewardBurst (Obs: kept = max received).
V: TLC validates the recorded trace against Trace_RewardServer: Conf mode on the observables C29 names
   (SendNewProof answers, TxRelayPayment calls, RewardDB contents); the invariants are evaluated on every
   accepted state.
"""
import os
import vlib

LEVEL = "model_checking"


def _validate(ctx, behs, tag):
    binp = vlib.go_build("rewardserver")
    bpath = os.path.join(ctx.work, tag + "_behaviours.json")
    tpath = os.path.join(ctx.work, tag + "_trace.ndjson")
    vlib.write_json(bpath, behs)
    vlib.run_harness(binp, [bpath, tpath], timeout=1200)
    rows = vlib.read_ndjson(tpath)
    res = vlib.tlc_trace(ctx, "Trace_RewardServer", "Trace_RewardServer.cfg", tpath,
                         tag=tag)
    if not res["accepted"]:
        if res["violated"] == "postcondition":
            line = (res["reached"] or 0) + 1
            kind = "conf-reject"
        else:
            line = vlib.violated_line(res) or (res["reached"] or 1)
            kind = res["violated"]
        bi, chunk, off = vlib.locate_trace(rows, line)
        beh = behs[bi] if 0 <= bi < len(behs) else None
        ev = rows[line - 1] if line - 1 < len(rows) else {}
        sig = "%s@%s" % (kind, ev.get("ev"))
        if ev.get("panic"):
            sig = "panic@%s" % ev.get("ev")
        return {"sig": sig, "beh": beh, "line": off, "event": ev, "kind": kind}
    ctx.cov["traces_validated_against_impl"] += len(behs)
    ctx.cov["trace_events"] = ctx.cov.get("trace_events", 0) + len(rows)
    return None


def _stress(ctx, tag, rounds, workers, seed):
    """Concurrent phase. Returns None or a dict describing the violated round."""
    binp = vlib.go_build("rewardserver")
    tpath = os.path.join(ctx.work, tag + "_burst.ndjson")
    vlib.run_harness(binp, ["-stress", rounds, workers, seed, tpath], timeout=3600)
    rows = vlib.read_ndjson(tpath)
    if len(rows) != rounds:
        raise vlib.Infra("stress driver logged %d rounds of %d" % (len(rows), rounds))
    overl = sum(1 for r in rows if r["overlap"] > 0)
    ctx.cov["burst_rounds"] = ctx.cov.get("burst_rounds", 0) + rounds
    ctx.cov["burst_rounds_with_overlapping_calls"] = ctx.cov.get("burst_rounds_with_overlapping_calls", 0) + overl
    ctx.cov["burst_calls"] = ctx.cov.get("burst_calls", 0) + rounds * workers
    if overl * 20 < rounds:
        raise vlib.Infra("vacuous concurrent phase: only %d of %d rounds had overlapping SendNewProof calls" % (overl, rounds))
    res = vlib.tlc_trace(ctx, "Trace_RewardBurst", "Trace_RewardBurst.cfg", tpath, tag=tag + "_burst", timeout=1800)
    if res["accepted"]:
        ctx.cov["traces_validated_against_impl"] += rounds
        return None
    if res["violated"] == "postcondition" or not (res["violated"] or "").startswith("invariant:"):
        raise vlib.Infra("burst trace not consumed by Trace_RewardBurst (%s, see %s)" % (res["violated"], res["outfile"]))
    line = vlib.violated_line(res) or 1
    ev = rows[line - 1]
    nbad = sum(1 for r in rows if r["kept"] != max([c["cu"] for c in r["calls"]] + [r["seedcu"]]) or r["subs"] != [r["kept"]])
    return {"sig": "%s@burst" % res["violated"], "event": ev, "bad_rounds": nbad}


def _concurrency(ctx):
    if os.environ.get("VERIF_DEV_SKIP_MC") != "1":
        mc = vlib.tlc_mc(ctx, "RewardServer", "RewardServer_conc.cfg", timeout=1800, tag="RewardServer_conc")
        if mc["violated"]:
            raise vlib.Infra("design-level spec (atomic save, concurrent calls) violates %s (see %s)" % (mc["violated"], mc["outfile"]))
        ctx.add_mc("RewardServer concurrent calls, single critical section", mc)
        sp = vlib.tlc_mc(ctx, "RewardServer", "RewardServer_split.cfg", timeout=600, tag="RewardServer_split")
        if sp["violated"] != "invariant:KeepsBest":
            raise vlib.Infra("check-then-act variant of the spec does not violate KeepsBest (%s): the concurrency model is insensitive" % sp["violated"])
        ctx.notes.append("design level: check-then-act variant (RewardServer_split.cfg) violates KeepsBest as expected")
    rounds, workers = ctx.pick(1500, 6000), 8
    bad = _stress(ctx, "stress", rounds, workers, ctx.seed)
    if bad:
        again = _stress(ctx, "stress_repro", rounds, workers, ctx.seed + 1)
        if again is None:
            raise vlib.Infra("concurrent counter-example not reproduced in a fresh run: %s" % bad["sig"])
        ctx.violation(again["sig"], "concurrent SendNewProof calls for one session: %d of %d rounds did not keep/submit the highest CuSum received, e.g. %s" % (
            again["bad_rounds"], rounds, vlib.json.dumps(again["event"])[:700]), {"stress": {"rounds": rounds, "workers": workers, "seed": ctx.seed}})
        return True
    return False


def _coverage(ctx, behs):
    kinds = {}
    for b in behs:
        for s in b:
            k = s["a"]
            if k == "update":
                k += ":" + ("ok" if s["okNew"] else "fail")
            kinds[k] = kinds.get(k, 0) + 1
    need = ["proof", "snap", "update:ok", "update:fail", "paid", "restart"]
    missing = [k for k in need if not kinds.get(k)]
    if missing:
        raise vlib.Infra("generator did not exercise action kinds %s" % missing)
    ctx.cov["action_kinds"] = kinds


def _trace_coverage(ctx, path, quick):
    rows = vlib.read_ndjson(path)
    ntx = sum(len(r["txs"]) for r in rows)
    nretry = sum(1 for r in rows for t in r["txs"] if t["kind"] == "retry")
    nfail = sum(1 for r in rows for t in r["txs"] if not t["ok"])
    nrestored = 0
    for i, r in enumerate(rows):
        if r["ev"] == "restart" and r["db"]:
            nrestored += 1
    # most submissions of one proof within one process lifetime (retry exhaustion = 3)
    maxsub, cnt = 0, {}
    for r in rows:
        if r["ev"] in ("reset", "restart"):
            cnt = {}
        for t in r["txs"]:
            for p in t["proofs"]:
                k = (p["e"], p["c"], p["s"], p["cu"])
                cnt[k] = cnt.get(k, 0) + 1
                maxsub = max(maxsub, cnt[k])
    ctx.cov["max_submissions_of_one_proof"] = maxsub
    ctx.cov["tx_calls"] = ntx
    ctx.cov["retry_tx_calls"] = nretry
    ctx.cov["failed_tx_calls"] = nfail
    ctx.cov["restarts_with_nonempty_db"] = nrestored
    if ntx < (20 if quick else 100) or nretry < 3 or nfail < 5 or nrestored < 3 or maxsub < 3:
        raise vlib.Infra("vacuous replay: tx=%d retry=%d failed=%d restarts-with-db=%d max-submissions=%d" % (ntx, nretry, nfail, nrestored, maxsub))


def _mc(ctx):
    mc = vlib.tlc_mc(ctx, "RewardServer", ctx.pick("RewardServer_mcq.cfg", "RewardServer_mc.cfg"),
                     timeout=ctx.pick(600, 3000), coverage=not ctx.quick)
    if mc["violated"]:
        raise vlib.Infra("design-level spec violates %s; spec must be repaired (see %s)" % (mc["violated"], mc["outfile"]))
    ctx.add_mc("RewardServer exhaustive", mc)
    if not ctx.quick:
        dead = [a for a in mc.get("zero_actions", []) if a in ("Proof", "Snap", "Update", "Paid", "Restart")]
        if dead:
            raise vlib.Infra("vacuous exhaustive run: actions never taken: %s" % dead)


def run(ctx):
    if os.environ.get("VERIF_DEV_SKIP_MC") != "1":   # development knob (mutant runs): the exhaustive run does not depend on the repo
        _mc(ctx)
    sim = vlib.tlc_sim(ctx, "RewardServer", "RewardServer_sim.cfg", num=ctx.pick(60, 300), depth=17, timeout=900)
    behs = [b for b in sim["behaviours"] if b]
    _coverage(ctx, behs)
    ctx.cov["evaluations"] = len(behs)
    nontriv = {vlib.json.dumps(b) for b in behs
               if any(s["a"] == "update" for s in b) and any(s["a"] == "proof" for s in b)}
    ctx.cov["distinct_nontrivial"] = len(nontriv)
    if len(nontriv) < ctx.pick(30, 150):
        raise vlib.Infra("too few non-trivial behaviours: %d" % len(nontriv))
    ctx.cov["rule"] = ("behaviours = TLC -simulate runs of RewardServer.tla GenNext (16 ops over proof/snap/update/paid/restart); "
                       "non-trivial = at least one proof and one epoch update; distinct by full action list")
    ctx.sample(behs[0])
    ctx.assumptions += ["proofs arrive only for epochs still valid for use (the provider session manager rejects older epochs first)",
                        "chain memory is longer than the claim window (earliest <= current - window)",
                        "one spec id / one DB; single-digit epochs (DeleteEpochRewards deletes by decimal prefix, see notes)",
                        "window = 1, maxRetries = 3 (code constant), 2 consumers, session ids {1, 2} with one id shared by both consumers",
                        "a crash is modelled as closing Badger and reopening it (no torn writes)",
                        "concurrent arrivals: hook-free stress (8 goroutines per round released by a barrier); interleavings are those the Go scheduler produces, their number makes a lost update practically certain to show (a check-then-act mutant fails ~10 % of the rounds)"]
    bad = _validate(ctx, behs, "sim")
    if bad:
        again = _validate(ctx, [bad["beh"]], "repro")
        if again is None:
            raise vlib.Infra("counter-example not reproduced: %s" % bad["sig"])
        ctx.violation(again["sig"], "real reward server deviates from RewardServer.tla / invariant at step %d: %s" % (
            again["line"], vlib.json.dumps(again["event"])[:700]), {"behaviours": [bad["beh"]]})
        return
    _trace_coverage(ctx, os.path.join(ctx.work, "sim_trace.ndjson"), ctx.quick)
    _concurrency(ctx)


def replay(ctx, path):
    with open(path) as f:
        obj = vlib.json.load(f)
    if "stress" in obj:
        st = obj["stress"]
        bad = _stress(ctx, "replay", st["rounds"], st["workers"], st["seed"])
        if bad:
            ctx.violation(bad["sig"], "replayed concurrent phase still fails in %d rounds: %s" % (bad["bad_rounds"], vlib.json.dumps(bad["event"])[:700]), obj)
        return
    bad = _validate(ctx, obj["behaviours"], "replay")
    if bad:
        ctx.violation(bad["sig"], "replayed behaviour still fails: %s" % vlib.json.dumps(bad["event"])[:600],
                      {"behaviours": [bad["beh"]]})
