"""C38 Request parsing is total and consistent on both sides.  (DESIGN.md section 4, C38; level: exploration)

M/G: ParseGrammar.tla is a generator: TLC enumerates request descriptors
     (interface x method class x params shape x block tag x structural mutation x variant x latest).
R:   this file renders each descriptor as concrete (url, data, connection type); harness/cmd/chainparse
     feeds it to the real ParseMsg of the interface's parser (ETH1 for JSON-RPC/batch, LAV1 for REST,
     Tendermint RPC and gRPC) as the consumer and - when accepted - as the provider
     (ExtensionInfo{LatestBlock: 0, ExtensionOverride: consumer's extensions}, rpcprovider_server.go),
     under recover() and a watchdog.
V:   Trace_ParseGrammar (Obs): TLC evaluates the property (Total, Clean, Agree) on every real result.
+    ExtensionChoice.tla: decision table of explicit extension choices (nil / [] / names) - TLC proves the
     agreement theorem ProviderHonours at design level and validates the table against the real ParseMsg (Conf on
     GetExtensions() and ComputeUnits for explicit choices; rule-decided rows are drift only, they belong to C32).
The "any byte string" quantifier is not reached; only the grammar is explored.
"""
import json
import os
import re
import vlib

LEVEL = "exploration"
ADDR = "0x" + "11" * 20
_BIN = {}
DEPTH = 3000
REPS = 10   # repetitions of the consumer+provider parse per request (detects map-order nondeterminism)


def _bin():
    if "p" not in _BIN:
        _BIN["p"] = vlib.go_build("chainparse")
    return _BIN["p"]


SPEC = {"jsonrpc": ("ETH1", "jsonrpc"), "batch": ("ETH1", "jsonrpc"), "rest": ("LAV1", "rest"),
        "tmjson": ("LAV1", "tendermintrpc"), "tmuri": ("LAV1", "tendermintrpc"), "grpc": ("LAV1", "grpc")}

ETH_METHOD = {"known_block": "eth_getBalance", "known_call": "eth_call", "known_noblock": "eth_chainId", "unknown": "eth_fooBar"}
TM_METHOD = {"known_block": "block", "known_noblock": "status", "unknown": "foo_bar"}
GRPC_METHOD = {"known_block": "cosmos.base.tendermint.v1beta1.Service/GetBlockByHeight",
               "known_noblock": "cosmos.base.tendermint.v1beta1.Service/GetLatestBlock", "unknown": "foo.Bar/Baz"}
REST_PATH = {"known_block": "/cosmos/base/tendermint/v1beta1/blocks/", "known_noblock": "/cosmos/bank/v1beta1/params",
             "unknown": "/foo/bar/"}


def block_token(r, hexnum):
    """JSON token (already encoded) of the block value, after value-level mutations."""
    t, mut, v = r["tag"], r["mut"], r["variant"]
    if t == "none":
        return None
    if t in ("num", "oldnum"):
        n = 950 if t == "num" else 5
        val = hex(n) if hexnum else str(n)
    else:
        val = t
    tok = json.dumps(val)
    if mut == "hugenum":
        tok = [json.dumps("0x" + "f" * 40), str(10 ** 30), json.dumps("1" + "0" * 400)][(v - 1) % 3]
    elif mut == "oddtag":
        tok = [json.dumps(val.upper() if not val[0].isdigit() else "-" + val), json.dumps(" " + val), json.dumps("0x")][(v - 1) % 3]
    elif mut == "deepnest" and v % 3 != 0:
        tok = ("[" * DEPTH + tok + "]" * DEPTH) if v % 3 == 1 else ('{"a":' * DEPTH + tok + "}" * DEPTH)
    elif mut == "wrongtype" and v % 3 == 1:
        tok = '{"blockNumber":%s}' % tok
    elif mut == "nullish" and v % 3 == 1:
        tok = "null"
    return tok


def json_request(r, method, first_params, names, hexnum, rid=1):
    """-> JSON text of one JSON-RPC style request.  first_params: encoded tokens before the block."""
    mut, v, shape = r["mut"], r["variant"], r["shape"]
    blk = block_token(r, hexnum)
    toks = list(first_params) + ([blk] if blk is not None else [])
    if shape == "positional":
        params = "[" + ",".join(toks) + "]"
    elif shape == "named":
        params = "{" + ",".join("%s:%s" % (json.dumps(n), t) for n, t in zip(names, toks)) + "}"
    elif shape == "empty":
        params = "[]"
    else:
        params = None
    mtok = json.dumps(method)
    if mut == "wrongtype" and v % 3 == 2:
        mtok = "5"
    if mut == "wrongtype" and v % 3 == 0:
        params = '"notalist"'
    if mut == "deepnest" and v % 3 == 0:
        params = "[" * (3 * DEPTH) + (params or "[]") + "]" * (3 * DEPTH)
    if mut == "nullish" and v % 3 == 2:
        params = "null"
    fields = [('"jsonrpc"', '"2.0"'), ('"id"', str(rid)), ('"method"', mtok)]
    if params is not None:
        fields.append(('"params"', params))
    if mut == "dupkey":
        if v % 3 == 1:
            fields.append(('"method"', '"eth_fooBar"'))
        elif v % 3 == 2:
            fields.append(('"params"', '["0x1"]'))
        else:
            fields.insert(0, ('"id"', '{"a":[1]}'))
    s = "{" + ",".join(k + ":" + val for k, val in fields) + "}"
    if mut == "nullish" and v % 3 == 0:
        s = ["null", "[]", "", "{}"][(v // 3) % 4]
    return s


def truncate(s, v):
    if not s:
        return s
    cut = [len(s) * 6 // 10, len(s) * 3 // 10, len(s) - 1][(v - 1) % 3]
    return s[:max(cut, 1)]


def url_block(r):
    t, mut, v = r["tag"], r["mut"], r["variant"]
    if t == "none":
        return None
    val = {"num": "950", "oldnum": "5"}.get(t, t)
    if mut == "hugenum":
        val = [str(10 ** 30), "f" * 40, "1" + "0" * 400][(v - 1) % 3]
    elif mut == "oddtag":
        val = [val.upper() if not val[0].isdigit() else "-" + val, "%20" + val, "0x"][(v - 1) % 3]
    elif mut == "wrongtype":
        val = ["abc", "%5B5%5D", "%7B%22a%22%3A1%7D"][(v - 1) % 3]
    elif mut == "nullish":
        val = ""
    return val


def render(r):
    """descriptor -> (url, data, conn)"""
    i, m, mut, v, shape = r["iface"], r["method"], r["mut"], r["variant"], r["shape"]
    if i in ("jsonrpc", "batch"):
        first = ['{"to":%s,"data":"0x"}' % json.dumps(ADDR)] if m == "known_call" else ([json.dumps(ADDR)] if m != "known_noblock" else [])
        names = ["tx" if m == "known_call" else "address", "block"]
        if m == "known_noblock":
            names = ["block"]
        body = json_request(r, ETH_METHOD[m], first, names, True)
        if i == "batch":
            other = '{"jsonrpc":"2.0","id":2,"method":"eth_blockNumber","params":[]}'
            body = "[" + (",".join([body, other]) if v % 2 == 1 else ",".join([other, body])) + "]"
            if mut == "nullish" and v % 3 == 0:
                body = "[]"
        if mut == "truncate":
            body = truncate(body, v)
        return "", body, "POST"
    if i == "tmjson":
        body = json_request(r, TM_METHOD[m], [], ["height"], False)
        if mut == "truncate":
            body = truncate(body, v)
        return "", body, ""
    if i == "grpc":
        blk = block_token(r, False)
        if mut == "wrongtype":
            blk = ['{"a":1}', "[5]", "true"][(v - 1) % 3] if blk is not None else blk
        fields = [('"height"', blk)] if blk is not None else []
        if mut == "dupkey":
            fields.append(('"height"', '"7"'))
        body = "{" + ",".join(k + ":" + val for k, val in fields) + "}"
        if mut == "deepnest" and v % 3 == 0:
            body = "[" * (3 * DEPTH) + body + "]" * (3 * DEPTH)
        if mut == "nullish" and v % 3 != 1:
            body = ["[]", "{}"][v % 2]
        if mut == "truncate":
            body = truncate(body, v)
        return GRPC_METHOD[m], body, ""
    # URL interfaces
    blk = url_block(r)
    if i == "rest":
        base = REST_PATH[m]
        if m == "known_noblock":
            url = base + ("" if blk is None else "?height=" + blk)
        elif shape == "positional":
            url = base + (blk if blk is not None else "")
        else:
            url = base + "5" + ("" if blk is None else "?height=" + blk)
    else:
        base = TM_METHOD[m]
        if blk is None:
            url = base
        elif shape == "positional":
            url = base + "/" + blk
        else:
            url = base + "?height=" + blk
    if mut == "dupkey":
        url += [("&" if "?" in url else "?") + "height=7", ("&" if "?" in url else "?") + "Height=7", ";height=7"][(v - 1) % 3]
    if mut == "deepnest":
        url += ["/a" * DEPTH, ("&" if "?" in url else "?") + "q=" + "%5B" * DEPTH, ("&" if "?" in url else "?") + "a=1&" * DEPTH][(v - 1) % 3]
    if mut == "truncate":
        url = truncate(url, v)
    if mut == "nullish" and v % 3 == 2:
        url = ""
    if mut == "nullish" and v % 3 == 0:
        url = "?"
    return url, "", ("GET" if i == "rest" else "")


def _jobs(vectors):
    jobs = []
    for r in vectors:
        url, data, conn = render(r)
        spec, iface = SPEC[r["iface"]]
        jobs.append({"in": r, "spec": spec, "iface": iface, "rule": 0, "policy": ["archive"],
                     "items": [{"url": url, "data": data, "conn": conn, "latest": r["latest"], "both": True,
                                "reps": 2 if r["mut"] == "deepnest" else REPS}]})
    return jobs


def _klass(r):
    return "%s/%s/%s/%s" % (r["iface"], r["method"], r["mut"], "tag" if r["tag"] not in ("num", "oldnum", "none") else r["tag"])


def signature(kind, r, o):
    if kind in ("panic", "hang"):
        return "%s@%s/%s" % (kind, r["iface"], r["mut"])
    if kind.startswith("agree") or kind in ("prov_err", "unstable"):
        return "%s@%s/%s/%s" % (kind, r["iface"], r["method"], "num" if r["tag"] in ("num", "oldnum") else "other")
    return "%s@%s/%s" % (kind, r["iface"], r["mut"])


def _validate(ctx, vectors, tag, count=True):
    binp = _bin()
    jpath = os.path.join(ctx.work, tag + "_jobs.json")
    tpath = os.path.join(ctx.work, tag + "_trace.ndjson")
    vlib.write_json(jpath, {"repo": vlib.REPO, "jobs": _jobs(vectors)})
    vlib.run_harness(binp, [jpath, tpath], timeout=3600, env={"VERIF_WATCHDOG_MS": "10000"})
    rows = vlib.read_ndjson(tpath)
    if len(rows) != len(vectors):
        raise vlib.Infra("driver produced %d lines for %d vectors" % (len(rows), len(vectors)))
    res = vlib.tlc_trace(ctx, "Trace_ParseGrammar", "Trace_ParseGrammar.cfg", tpath, tag=tag, timeout=1800)
    if not res["accepted"] or res["reached"] != len(rows):
        raise vlib.Infra("trace walk incomplete (%s, reached %s of %d; see %s)" % (
            res["violated"], res["reached"], len(rows), res["outfile"]))
    fails = []
    for m in re.finditer(r'<<"BAD", (\d+), "(\w+)">>', res["out"]):
        i, kind = int(m.group(1)), m.group(2)
        row = rows[i - 1]
        fails.append({"kind": kind, "vector": vectors[i - 1], "out": row["out"][0],
                      "sig": signature(kind, row["in"], row["out"][0])})
    if count:
        cov = ctx.cov
        cov["traces_validated_against_impl"] += len(rows)
        cov["binding_block_matches"] = cov.get("binding_block_matches", 0) + len(re.findall(r'<<"COV", \d+>>', res["out"]))
        cov["consumer_accepted"] = cov.get("consumer_accepted", 0) + sum(1 for r in rows if not r["out"][0]["err"] and not r["out"][0]["panic"])
        cov["consumer_rejected"] = cov.get("consumer_rejected", 0) + sum(1 for r in rows if r["out"][0]["err"])
        cov["provider_parsed"] = cov.get("provider_parsed", 0) + sum(1 for r in rows if r["out"][0]["hasprov"])
        cov["max_parse_ms"] = max([cov.get("max_parse_ms", 0)] + [r["out"][0].get("ms", 0) for r in rows])
        per = cov.setdefault("accepted_per_interface", {})
        for r in rows:
            if not r["out"][0]["err"] and not r["out"][0]["panic"]:
                per[r["in"]["iface"]] = per.get(r["in"]["iface"], 0) + 1
    return fails


# ---- explicit extension choice: ExtensionChoice.tla decision table bound to the real ParseMsg (Conf) ----
def _choice_request(v):
    params = [{"to": ADDR, "data": "0x"}] if v["method"] == "eth_call" else [ADDR]
    tags = {-2: "latest", -3: "earliest", -4: "pending", -5: "safe", -6: "finalized"}
    if v["req"] >= 0:
        params.append(hex(v["req"]))
    elif v["req"] in tags:
        params.append(tags[v["req"]])
    return json.dumps({"jsonrpc": "2.0", "id": 1, "method": v["method"], "params": params})


def _choice_validate(ctx, vectors, tag):
    binp = _bin()
    jobs = []
    for v in vectors:
        it = {"url": "", "data": _choice_request(v), "conn": "POST", "latest": v["latest"]}
        if v["o"] != "nil":
            it["override"] = v["list"]
        jobs.append({"in": {k: v[k] for k in ("req", "latest", "rule", "method", "o", "cfgd")}, "spec": "ETH1", "iface": "jsonrpc",
                     "rule": v["rule"], "policy": ["archive"] if v["cfgd"] else [], "items": [it]})
    jpath = os.path.join(ctx.work, tag + "_jobs.json")
    tpath = os.path.join(ctx.work, tag + "_trace.ndjson")
    vlib.write_json(jpath, {"repo": vlib.REPO, "jobs": jobs})
    vlib.run_harness(binp, [jpath, tpath])
    rows = vlib.read_ndjson(tpath)
    if len(rows) != len(vectors):
        raise vlib.Infra("driver produced %d lines for %d vectors" % (len(rows), len(vectors)))
    res = vlib.tlc_trace(ctx, "Trace_ExtensionChoice", "Trace_ExtensionChoice.cfg", tpath, tag=tag)
    if not res["accepted"] or res["reached"] != len(rows):
        raise vlib.Infra("trace walk incomplete (%s, reached %s of %d; see %s)" % (
            res["violated"], res["reached"], len(rows), res["outfile"]))
    fails = []
    for m in re.finditer(r'<<"BAD", (\d+), "(\w+)">>', res["out"]):
        i, kind = int(m.group(1)), m.group(2)
        v, o = vectors[i - 1], rows[i - 1]["out"][0]
        if kind == "bind":
            # clean answer, but another method / block than rendered (or a clean rejection): not evidence about the property
            raise vlib.Infra("binding: choice vector %s did not parse as intended: %s" % (json.dumps(v), json.dumps(o)[:300]))
        if kind in ("panic", "hang", "unclean"):
            # the real parser misbehaved on a well-formed request: C38's own oracle, same signatures as the grammar stage
            sig = "%s@jsonrpc/none" % kind
        else:
            sig = "override-%s@%s/%s" % (kind, v["o"], "configured" if v["cfgd"] else "unconfigured")
        fails.append({"kind": kind, "vector": v, "out": o, "sig": sig})
    return fails, rows


def _choice_stage(ctx):
    mc = vlib.tlc_mc(ctx, "ExtensionChoice", "ExtensionChoice_mc.cfg", timeout=600)
    if mc["violated"]:
        raise vlib.Infra("design-level: ExtensionChoice violates %s (see %s)" % (mc["violated"], mc["outfile"]))
    ctx.add_mc("ExtensionChoice decision table (provider honours the consumer's choice)", mc)
    if not ctx.quick:
        ug = vlib.tlc_mc(ctx, "ExtensionChoice", "ExtensionChoice_unguarded.cfg", timeout=600, tag="ExtensionChoice_unguarded")
        ctx.notes.append("design-level: with the unguarded eth_call clause (code before F12) ProviderHonours %s" % (
            "is violated" if ug["violated"] else "holds (unexpected)"))
    em = vlib.tlc_emit(ctx, "ExtensionChoice", "ExtensionChoice_emit.cfg", timeout=600)
    vectors = em["behaviours"]
    fails, rows = _choice_validate(ctx, vectors, "choice")
    ctx.cov["choice_vectors"] = len(vectors)
    ctx.cov["choice_archive_attached"] = sum(1 for r in rows if r["out"][0]["arch"])
    ctx.cov["traces_validated_against_impl"] += len(rows)
    # vacuity is judged on the table itself (what TLC expects), never on what the real code answered
    if sum(1 for v in vectors if v["exp"]) < 20 or sum(1 for v in vectors if v["o"] != "nil") < 100:
        raise vlib.Infra("vacuous extension-choice table")
    if not fails and ctx.cov["choice_archive_attached"] < 20:
        raise vlib.Infra("extension-choice binding is dead: %d rows attached archive" % ctx.cov["choice_archive_attached"])
    seen = {}
    for f in fails:
        if f["vector"]["o"] == "nil" and f["kind"] in ("exts", "cu"):
            # the parser's own decision is C32's property; here it is drift only
            ctx.drift.append("rule-decided marking differs from ExtensionChoice for %s" % json.dumps(f["vector"]))
            continue
        seen.setdefault(f["sig"], []).append(f)
    ctx.cov["choice_failing"] = sum(len(x) for x in seen.values())
    if not seen:
        return
    again, _ = _choice_validate(ctx, [fl[0]["vector"] for fl in seen.values()], "choice_repro")
    for sig, fl in sorted(seen.items()):
        w = fl[0]
        if not [a for a in again if a["sig"] == sig and a["vector"] == w["vector"]]:
            raise vlib.Infra("counter-example not reproduced: %s %s" % (sig, json.dumps(w["vector"])))
        v, o = w["vector"], w["out"]
        if w["kind"] in ("panic", "hang", "unclean"):
            ctx.violation(sig, "ParseMsg %s on the well-formed request %s (latest %d, override %s): %s (%d vectors in this class)" % (
                w["kind"], _choice_request(v), v["latest"], "nil" if v["o"] == "nil" else json.dumps(v["list"]),
                o.get("panics") or json.dumps({k: o.get(k) for k in ("api", "cus", "err")}), len(fl)), {"choice_vectors": [v]})
            continue
        ctx.violation(sig, "explicit extension choice %s on a parser %s archive, %s block %s latest %d: real extensions %s cu %s, "
                      "decision table says archive=%s (%d vectors in this class)" % (
                          json.dumps(v["list"]), "with" if v["cfgd"] else "without", v["method"], v["req"], v["latest"],
                          o["exts"], o["cus"], v["exp"], len(fl)),
                      {"choice_vectors": [v]})


def _describe(f):
    r, o = f["vector"], f["out"]
    url, data, conn = render(r)
    p = o.get("prov") or {}
    shown = (data or url)
    if len(shown) > 160:
        shown = shown[:80] + "...(%d bytes)..." % len(shown) + shown[-40:]
    return ("%s request %s: consumer(latest=%d) -> api=%s cu=%s addon=%r block=(%s,%s) exts=%s err=%s panic=%s%s hang=%s; "
            "repeated consumer parse differs=%s%s; provider -> api=%s cu=%s block=(%s,%s) err=%s%s panic=%s hang=%s" % (
                r["iface"], shown, r["latest"], o.get("api"), o.get("cus"), o.get("addon"), o.get("lats"), o.get("earls"),
                o.get("exts"), o.get("err"), o.get("panic"), (" " + o.get("panics", "")) if o.get("panic") else "", o.get("hang"),
                o.get("unstable"), (" (api=%s)" % o.get("alt")) if o.get("unstable") else "",
                p.get("api"), p.get("cus"), p.get("lats"), p.get("earls"), p.get("err"),
                (" " + p.get("errs", "")[:100]) if p.get("err") else "", p.get("panic"), p.get("hang")))


def run(ctx):
    mc = vlib.tlc_mc(ctx, "ParseGrammar", ctx.pick("ParseGrammar_mcq.cfg", "ParseGrammar_mc.cfg"), timeout=900)
    if mc["violated"]:
        raise vlib.Infra("generator incomplete: %s (see %s)" % (mc["violated"], mc["outfile"]))
    ctx.add_mc("ParseGrammar generator (every interface x mutation x tag combination exists)", mc)
    em = vlib.tlc_emit(ctx, "ParseGrammar", ctx.pick("ParseGrammar_emitq.cfg", "ParseGrammar_emit.cfg"), timeout=900)
    vectors = em["behaviours"]
    ctx.cov["evaluations"] = len(vectors)
    ctx.cov["distinct_nontrivial"] = len({_klass(r) for r in vectors if r["mut"] != "none"})
    ctx.cov["rule"] = ("vectors = every descriptor of the TLC grammar (6 interface forms x method class x params shape x block tag x 8 "
                       "mutations x variants x latest), rendered to concrete requests; non-trivial = distinct (interface, method class, "
                       "mutation, tag class) combinations among mutated requests")
    ctx.sample(vectors[0])
    ctx.sample(list(render([r for r in vectors if r["mut"] == "dupkey"][0])))
    ctx.assumptions += ["only the structured grammar of specs/ParseGrammar.tla is explored - NOT arbitrary byte strings",
                        "checked-in specs ETH1 (JSON-RPC, batch) and LAV1 (REST, Tendermint RPC JSON/URI, gRPC) only",
                        "gRPC bodies are JSON (first byte '{' or '['): the harness has no descriptor registry, binary protobuf bodies are not parsed",
                        "no request headers / metadata; provider side = ExtensionInfo{LatestBlock: 0, ExtensionOverride: consumer extensions}",
                        "hang = no answer within the watchdog (10 s per ParseMsg; the longest observed parse is recorded as max_parse_ms)"]
    _choice_stage(ctx)
    fails = _validate(ctx, vectors, "grid")
    cov = ctx.cov
    # coverage thresholds are about the exploration, not about the code: they only apply when nothing failed
    # (a parser that panics or rejects everything is reported below, not turned into an infrastructure error)
    if not fails:
        if cov["consumer_accepted"] < 100 or cov["consumer_rejected"] < 50 or cov["provider_parsed"] < 100 or cov["binding_block_matches"] < 10:
            raise vlib.Infra("vacuous exploration: %s" % {k: cov[k] for k in ("consumer_accepted", "consumer_rejected", "provider_parsed", "binding_block_matches")})
        if len(cov["accepted_per_interface"]) < 6:
            raise vlib.Infra("an interface never accepted any request: %s" % cov["accepted_per_interface"])
    seen = {}
    for f in fails:
        seen.setdefault(f["sig"], []).append(f)
    cov["failing_requests"] = len(fails)
    if not seen:
        return
    wit = {sig: fl[0] for sig, fl in seen.items()}
    again = _validate(ctx, [w["vector"] for w in wit.values()], "repro", count=False)
    for sig, w in sorted(wit.items()):
        fam = (lambda x: "nondet-or-disagree" if x.split("@")[0] in ("unstable", "agree_api", "agree_cu", "agree_addon", "agree_block") else x)
        if not [a for a in again if a["vector"] == w["vector"] and (a["sig"] == sig or ((w["out"].get("unstable") or a["out"].get("unstable")) and fam(a["sig"]) == fam(sig)))]:
            if sig.startswith("hang@"):
                ctx.notes.append("hang not reproduced (timing): %s" % json.dumps(w["vector"]))
                continue
            raise vlib.Infra("counter-example not reproduced: %s %s" % (sig, json.dumps(w["vector"])))
        url, data, conn = render(w["vector"])
        ctx.violation(sig, _describe(w) + " (%d requests in this class)" % len(seen[sig]),
                      {"vectors": [w["vector"]], "url": url, "data": data[:2000], "conn": conn})


def replay(ctx, path):
    with open(path) as f:
        obj = json.load(f)
    done = set()
    if obj.get("choice_vectors"):
        for f in _choice_validate(ctx, obj["choice_vectors"], "replay")[0]:
            ctx.violation(f["sig"], "replayed choice vector still fails: %s -> %s" % (json.dumps(f["vector"]), f["out"]["exts"]),
                          {"choice_vectors": [f["vector"]]})
        return
    for f in _validate(ctx, obj["vectors"], "replay"):
        if f["sig"] in done:
            continue
        done.add(f["sig"])
        ctx.violation(f["sig"], "replayed request still fails: " + _describe(f), {"vectors": [f["vector"]]})
