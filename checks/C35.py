"""C35 Weighted provider selection is fair and well-formed.  (DESIGN.md section 4, C35)

M: Selector.tla exhaustively (3 providers, weights 0..8 eighths, every ignored / no-data subset, every draw
   cell): PickValid, PickExists, ScoredOK, Proportional (every provider owns exactly w_i of the interval:
   exact proportionality given a uniform draw), UniformWhenZero.
G: TLC emits the configurations (ignored, nodata, weights) and, for the lattice part, the grid points with
   their one-coordinate improvements per (strategy, adaptive bounds) group.
R: harness/cmd/selector: real CalculateProviderScores filters, weights set to k/8, real
   SelectProviderWithStats with SetDeterministicSeed; the driver mirrors the same math/rand stream.
   Real CalculateScore on both ends of every improvement pair (three-way comparison logged).
V: TLC validates every line against Trace_Selector.tla: Conf on the observables (kept candidates, pick =
   interval rule on the logged draw cell) decides; Obs invariants for the lattice (exploration level).
Assumption: uniformity of math/rand's Float64 (proportionality is exact *given* a uniform draw).
"""
import os
import vlib

LEVEL = "model_checking"
# grid sizes must match NA/NL/NS/NK of specs/Selector_lat(q).cfg and Trace_Selector(_q).cfg
GRID_Q = {"a": ["0.5", "0.9", "1"], "l": ["100", "1", "0.01"], "s": ["5000", "60", "0"], "k": [0, 50]}
GRID_T = {"a": ["0.5", "0.9", "1"], "l": ["100", "10", "1", "0.01"], "s": ["5000", "60", "0"], "k": [0, 50]}
SIGS = {"invariant:ConfFilter": "candidates-kept-differ-from-all-minus-ignored-minus-nodata",
        "invariant:ConfInterval": "pick-violates-interval-rule",
        "invariant:ConfDraw": "reported-RNGValue-is-not-u-times-total",
        "invariant:ObsValid": "pick-outside-eligible-candidates",
        "invariant:ObsWeights": "weight-outside-minChance-1",
        "invariant:ObsLattice": "improvement-lowers-weight",
        "invariant:ObsRange": "score-not-a-finite-number-in-minChance-1",
        "invariant:ObsFallback": "unusable-adaptive-window-changes-the-score",
        "invariant:ObsRealDraw": "real-weight-draw-violates-interval-rule-or-weight-range"}


def _drive(ctx, inp, tag):
    binp = vlib.go_build("selector")
    ipath = os.path.join(ctx.work, tag + "_in.json")
    tpath = os.path.join(ctx.work, tag + "_trace.ndjson")
    vlib.write_json(ipath, inp)
    vlib.run_harness(binp, [ipath, tpath])
    rows = vlib.read_ndjson(tpath)
    res = vlib.tlc_trace(ctx, "Trace_Selector", ctx.pick("Trace_Selector_q.cfg", "Trace_Selector.cfg") if inp.get("_cfg") is None else inp["_cfg"],
                         tpath, tag=tag, timeout=3000)
    return rows, res


def _bad(rows, res):
    if res["accepted"]:
        return None
    if res["violated"] == "postcondition" or not str(res["violated"]).startswith("invariant:"):
        raise vlib.Infra("trace validation stopped unexpectedly: %s (see %s)" % (res["violated"], res["outfile"]))
    line = vlib.violated_line(res)
    if line is None or line < 1:
        raise vlib.Infra("cannot locate violating line (see %s)" % res["outfile"])
    return rows[line - 1], res["violated"]


def _sig(r, inv):
    s = SIGS.get(inv, inv)
    if r["ev"] == "lat":
        return "%s@lw=%s,sw=%s,coord=%s" % (s, r["lw"], r["sw"], r["p"][4])
    if r["ev"] == "real":
        return "%s@lw=%s,sw=%s" % (s, r["lw"], r["sw"])
    return s


def _single(inp, r):
    one = dict(inp)
    if r["ev"] == "sel":
        one["sel"] = [{"ignored": r["ignored"], "nodata": r["nodata"], "k": r["k"]}]
        one["lat"] = []
        one["draws"] = max(inp["draws"], 50)
    else:
        one["sel"] = []
        one["lat"] = [{"strategy": r["strategy"], "lw": r["lw"], "sw": r["sw"]}]
        if r["ev"] == "lat":
            one["pairs"] = [r["p"]]
    return one


def run(ctx):
    mc = vlib.tlc_mc(ctx, "Selector", ctx.pick("Selector_mcq.cfg", "Selector_mc.cfg"), timeout=ctx.pick(600, 3000))
    if mc["violated"]:
        raise vlib.Infra("design-level spec violates %s (see %s)" % (mc["violated"], mc["outfile"]))
    ctx.add_mc("Selector exhaustive", mc)
    sel = vlib.tlc_emit(ctx, "Selector", ctx.pick("Selector_emitq.cfg", "Selector_emit.cfg"), tag="Selector_emit", timeout=1800)["behaviours"]
    lat = vlib.tlc_emit(ctx, "Selector", ctx.pick("Selector_latq.cfg", "Selector_lat.cfg"), tag="Selector_lat", timeout=1800)["behaviours"]
    pairs = [x["pairs"] for x in lat if "pairs" in x]
    groups = [x for x in lat if "pairs" not in x]
    if len(pairs) != 1 or not groups:
        raise vlib.Infra("lattice emission incomplete: %d pair sets, %d groups" % (len(pairs), len(groups)))
    grid = dict(ctx.pick(GRID_Q, GRID_T))
    grid["others"] = 50
    grid["bounds"] = [0.05, 3.0, 0.5, 2.0, 200.0, 30.0]   # latency p10, p90, degenerate value; sync p10, p90, degenerate value
    provs = ["p1", "p2", "p3"] if ctx.quick else ["p1", "p2", "p3", "p4"]
    inp = {"seed": ctx.seed, "draws": ctx.pick(4, 6), "provs": provs, "sel": sel, "grid": grid, "pairs": pairs[0], "lat": groups,
           "realDraws": ctx.pick(4, 8)}
    rows, res = _drive(ctx, inp, "all")
    nsel = sum(1 for r in rows if r["ev"] == "sel")
    nreal = sum(1 for r in rows if r["ev"] == "real")
    nlat = len(rows) - nsel - nreal
    picks = {r["pick"] for r in rows if r["ev"] == "sel"}
    cmps = {r["cmp"] for r in rows if r["ev"] == "lat"}
    multi = sum(1 for r in rows if r["ev"] == "sel" and len(r["scored"]) >= 2 and r["total8"] > 0)
    wk = {r["lw"] for r in rows if r["ev"] == "lat"} | {r["sw"] for r in rows if r["ev"] == "lat"}
    used_l = sum(1 for r in rows if r["ev"] == "lat" and r["lw"] in ("valid", "tight") and not r["eqOffL"])
    used_s = sum(1 for r in rows if r["ev"] == "lat" and r["sw"] in ("valid", "tight") and not r["eqOffS"])
    realpicks = {r["pick"] for r in rows if r["ev"] == "real"}
    need_w = {"off", "valid", "tight", "equal", "reversed", "zero", "bothzero", "negative", "nan10", "nan90", "inf90", "neginf10"}
    if (nsel == 0 or nlat == 0 or nreal == 0 or len(picks) < len(provs) + 1 or multi < 100 or 1 not in cmps or not need_w <= wk
            or used_l == 0 or used_s == 0 or len(realpicks) < 2):
        raise vlib.Infra("vacuous: sel=%d lat=%d real=%d picks=%s multi=%d cmps=%s windows=%s adaptive-used=%d/%d realpicks=%s" % (
            nsel, nlat, nreal, sorted(picks), multi, sorted(cmps), sorted(wk), used_l, used_s, sorted(realpicks)))
    ctx.cov["evaluations"] = len(rows)
    ctx.cov["distinct_nontrivial"] = multi + sum(1 for r in rows if r["ev"] == "lat" and r["cmp"] == 1)
    ctx.cov["rule"] = ("sel: every (ignored subset, no-data subset, weight vector over KSet eighths) TLC emits x D seeded draws; non-trivial = "
                       ">= 2 scored candidates with positive total weight; lat: every (grid point, improved coordinate) x strategy x adaptive "
                       "window-kind group (latency and sync getters: off, valid, tight, equal, reversed, zero, bothzero, negative, NaN, Inf); non-trivial = "
                       "strictly larger score after the improvement; real: draws with the group's real float weights")
    ctx.cov["draws"] = nsel
    ctx.cov["lattice_pairs"] = nlat
    ctx.cov["real_weight_draws"] = nreal
    ctx.cov["window_kinds"] = sorted(wk)
    ctx.cov["lattice_lines_where_adaptive_window_changed_the_score"] = [used_l, used_s]
    ctx.cov["traces_validated_against_impl"] += len(sel) + len(groups)
    ctx.sample(rows[nsel // 2])
    ctx.sample(next(r for r in rows if r["ev"] == "lat" and r["lw"] == "equal"))
    ctx.sample(next(r for r in rows if r["ev"] == "real"))
    ctx.assumptions += ["math/rand Float64 is uniform on [0,1): proportionality is exact relative to the draw, it is not re-measured statistically",
                        "weights are dyadic (k/8) in the interval-rule runs so float sums are exact; boundary draws (u*total exactly on a cumulative "
                        "sum) have measure zero",
                        "lattice: finite grid of QoS values / stakes / strategies / adaptive window kinds incl. degenerate and invalid ones "
                        "(float arithmetic evaluated by the real code only; finiteness logged as an explicit flag)",
                        "binding is at WeightedSelector level (CalculateProviderScores + SelectProviderWithStats + CalculateScore); "
                        "ProviderOptimizer.ChooseProvider is their composition"]
    b = _bad(rows, res)
    if b:
        r, inv = b
        rows2, res2 = _drive(ctx, _single(inp, r), "repro")
        b2 = _bad(rows2, res2)
        if not b2:
            raise vlib.Infra("counter-example not reproduced: %s" % vlib.json.dumps(r)[:300])
        ctx.violation(_sig(b2[0], b2[1]), "real WeightedSelector: %s" % vlib.json.dumps(b2[0])[:500], {"input": _single(inp, r), "cfg": ctx.pick("Trace_Selector_q.cfg", "Trace_Selector.cfg")})


def replay(ctx, path):
    with open(path) as f:
        obj = vlib.json.load(f)
    inp = dict(obj["input"])
    inp["_cfg"] = obj["cfg"]
    rows, res = _drive(ctx, inp, "replay")
    b = _bad(rows, res)
    if b:
        ctx.violation(_sig(b[0], b[1]), "replayed input still fails: %s" % vlib.json.dumps(b[0])[:500], obj)
