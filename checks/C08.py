"""C08 Reward splits conserve value and follow credit and commission.  (DESIGN.md section 4, C08)

M: specs/RewardSplit.tla (transcription of the contributor part, CalcRewards, CalcDelegatorReward, leftovers to the
   provider) exhaustively over reward 0..60 x self credit 1..5 x <=2 (quick) / <=3 (thorough) delegators with
   credits 0..5 x commission {0,1,50,99,100} x contributors 0..2 x percentage: conservation, non-negativity,
   100 % commission, contributor bound, remainder < #delegators + 1, no-commission pool = credit share.
G: TLC enumerates every setup (self credit, credits, commission, contributors, percentage); a seeded subset is
   replayed (all of them in the thorough tier), each with every reward 0..60 in two denominations.
R: harness/t/rewardsplit instantiates the setup on a Tester (stake with the commission, delegations of 720 tokens
   aged k hours by ChangeDelegationTimestamp => credit k, contributors on the spec) and calls the real
   RewardProvidersAndDelegators; DelegatorReward record changes and bank balance changes are logged.
V: Trace_RewardSplit (Obs): the clauses are evaluated by TLC on the real outputs, using the real credits
   (CalculateMonthlyCredit as logged); the outputs are also compared with the transcription.
"""
import os
import random
import re
import vlib

LEVEL = "model_checking"
_LINE = re.compile(r'^<<"(VIOL|SETUP)", (\d+)(?:, "([^"]+)")?>>$', re.M)
MAXR = 60


def _validate(ctx, setups, tag):
    binp = getattr(ctx, "_rs_bin", None)
    if binp is None:
        binp = ctx._rs_bin = vlib.go_test_build("rewardsplit")
    findings, stats = [], {"calls": 0, "nonzero_delegator_parts": 0, "contributor_payments": 0,
                           "setup_mismatch": 0}
    # the trace validator reads the whole file: keep the chunks moderate
    chunk = 400
    for ci in range(0, len(setups), chunk):
        part = setups[ci:ci + chunk]
        bpath = os.path.join(ctx.work, "%s_%d_setups.json" % (tag, ci))
        tpath = os.path.join(ctx.work, "%s_%d_trace.ndjson" % (tag, ci))
        vlib.write_json(bpath, part)
        vlib.run_test_harness(binp, {"VERIF_IN": bpath, "VERIF_OUT": tpath, "VERIF_SEED": ctx.seed, "VERIF_MAXR": MAXR}, timeout=3000)
        rows = vlib.read_ndjson(tpath)
        if len(rows) != len(part) * (MAXR + 1):
            raise vlib.Infra("rewardsplit driver wrote %d lines for %d setups" % (len(rows), len(part)))
        res = vlib.tlc_trace(ctx, "Trace_RewardSplit", "Trace_RewardSplit.cfg", tpath, tag="%s_%d" % (tag, ci), timeout=2400)
        if not res["accepted"]:
            raise vlib.Infra("trace validation did not run to the end: %s (see %s)" % (res["violated"], res["outfile"]))
        for m in _LINE.finditer(res["out"]):
            kind, ln, sig = m.group(1), int(m.group(2)), m.group(3)
            r = rows[ln - 1]
            if kind == "SETUP":
                stats["setup_mismatch"] += 1
                continue
            findings.append({"sig": sig, "setup": part[r["set"]], "event": r})
        for r in rows:
            stats["calls"] += 1
            if any(x > 0 for x in r["dels"][0]):
                stats["nonzero_delegator_parts"] += 1
            if any(x > 0 for x in r["con"][0]):
                stats["contributor_payments"] += 1
        os.remove(tpath)
    return findings, stats


def _what(f):
    r = f["event"]
    return ("%s: reward %s, self credit %s, delegator credits %s, commission %s, %s contributors at %s/100000 => provider record "
            "+%s, delegator records +%s, contributors +%s, left sender %s, entered dualstaking module %s, err=%s" % (
                f["sig"], r["R"], r["S"], r["D"], r["C"], r["N"], r["PP"], r["prov"], r["dels"], r["con"], r["sender"], r["module"],
                r.get("err", "")))


def _confirm(ctx, findings):
    by_sig = {}
    for f in findings:
        by_sig.setdefault(f["sig"], f)
    for i, (sig, f) in enumerate(sorted(by_sig.items())):
        again, _ = _validate(ctx, [f["setup"]], "repro%d" % i)
        same = [g for g in again if g["sig"] == sig]
        if not same:
            raise vlib.Infra("counter-example not reproduced: %s" % sig)
        ctx.violation(sig, _what(same[0]), {"setups": [f["setup"]]})


def run(ctx):
    mc = vlib.tlc_mc(ctx, "RewardSplit", ctx.pick("RewardSplit_mcq.cfg", "RewardSplit_mc.cfg"), timeout=ctx.pick(900, 7200))
    if mc["violated"]:
        raise vlib.Infra("design-level transcription violates %s (candidate; see %s)" % (mc["violated"], mc["outfile"]))
    ctx.add_mc("RewardSplit exhaustive vectors", mc)
    em = vlib.tlc_emit(ctx, "RewardSplit", "RewardSplit_emit.cfg", timeout=1800)
    allsets = em["behaviours"]
    rnd = random.Random(ctx.seed)
    if ctx.quick:
        # every (commission, contributors, percentage) class is represented, credits drawn at random
        setups = rnd.sample(allsets, 330)
        seen = {(s["C"], s["N"], s["PP"]) for s in setups}
        for s in allsets:
            if (s["C"], s["N"], s["PP"]) not in seen:
                seen.add((s["C"], s["N"], s["PP"]))
                setups.append(s)
    else:
        setups = rnd.sample(allsets, 6000)
    ctx.cov["setups_total"] = len(allsets)
    ctx.cov["setups_replayed"] = len(setups)
    ctx.cov["evaluations"] = len(setups) * (MAXR + 1)
    ctx.cov["rule"] = ("vector = (reward 0..60 in two denominations, self credit 1..5, non-decreasing tuple of <=3 delegator credits "
                       "0..5, commission in {0,1,50,99,100}, 0..2 contributors, percentage*1e5 in {0,1,33333,50000,80000}); setups "
                       "enumerated exhaustively by TLC, seeded sample replayed with every reward; non-trivial = at least one "
                       "delegator receives a non-zero part; distinct by construction")
    ctx.sample(setups[0])
    ctx.assumptions += ["delegated amount 720 per delegation, credit = age in hours (1..5) via ChangeDelegationTimestamp",
                        "provider holds stake (self credit >= 1); two denominations per reward (bond denom + ibc/verif)",
                        "contributor percentage given with 5 decimals; the function is called directly (as the monthly payout "
                        "timers do), not inside a transaction",
                        "thorough tier replays a sample of 6000 of the 23100 setups (all 61 rewards each)"]
    findings, st = _validate(ctx, setups, "main")
    ctx.cov["traces_validated_against_impl"] += st["calls"]
    ctx.cov["distinct_nontrivial"] = st["nonzero_delegator_parts"]
    ctx.cov["calls_with_contributor_payment"] = st["contributor_payments"]
    if st["setup_mismatch"]:
        raise vlib.Infra("driver could not produce the wanted credits in %d calls" % st["setup_mismatch"])
    if st["nonzero_delegator_parts"] < 1000 or st["contributor_payments"] < 1000:
        raise vlib.Infra("vacuous: %d calls with delegator parts, %d with contributor payments" % (
            st["nonzero_delegator_parts"], st["contributor_payments"]))
    _confirm(ctx, findings)


def replay(ctx, path):
    with open(path) as f:
        obj = vlib.json.load(f)
    findings, _ = _validate(ctx, obj["setups"], "replay")
    done = set()
    for f in findings:
        if f["sig"] not in done:
            done.add(f["sig"])
            ctx.violation(f["sig"], _what(f), {"setups": [f["setup"]]})
