"""C10 Escrowed obligations are always fully backed.  (DESIGN.md section 4, C10)

Same machinery as C09 (checks/C09.py holds it).  After every step (every tx and every block) the Go driver reads
the obligations from public state:
  ds    = sum of GetAllDelegatorReward (claimable delegator / provider rewards)
  iprpc = sum of the spec funds of GetAllIprpcReward with id >= GetIprpcRewardsCurrentId
  sub   = credit of every consumer's forward-looking subscription version (the fixation entry visible at the next
          epoch start) + its FutureSubscription credit + credit of every pending cu-tracker timer
and the balances of the dualstaking / iprpc_pool / subscription module accounts.  TLC evaluates BackedDs,
BackedIprpc and BackedSub (LavaChain.tla) on every real state (Trace_LavaChain_C10.cfg, Obs mode).

Signature of a finding: unbacked:<account>@<event of the step that made it so>.
"""
import importlib.util
import os
import vlib

LEVEL = "model_checking"

_spec = importlib.util.spec_from_file_location("hist_common", os.path.join(os.path.dirname(os.path.abspath(__file__)), "C09.py"))
H = importlib.util.module_from_spec(_spec)
_spec.loader.exec_module(H)

ACC = {"invariant:BackedDs": ("ds", "dualstaking"), "invariant:BackedIprpc": ("iprpc", "iprpc_pool"),
       "invariant:BackedSub": ("sub", "subscription")}


def _sig(kind, prev, ev):
    k, name = ACC.get(kind, ("?", kind))
    return "unbacked:%s@%s" % (name, ev.get("ev"))


def _what(kind, prev, ev, step):
    k, name = ACC.get(kind, ("?", kind))
    return "module account %s holds %s but owes %s after step %d (%s %s); obligations=%s" % (
        name, ev.get("bal", {}).get(k), ev.get("obl", {}).get(k), step, ev.get("ev"),
        vlib.json.dumps(ev.get("step"))[:160], vlib.json.dumps(ev.get("obl")))


def run(ctx):
    counts = dict(H.plan(ctx, "C10"))
    # bias: advance-purchase replacement / upgrades inside the payout window (renew), IPRPC months nobody served (iprpc)
    counts["renew"] = int(counts["renew"] * 1.3)
    counts["iprpc"] = int(counts["iprpc"] * 1.7)
    fams = H.gen_and_design(ctx, counts, ctx.pick(("_sub", "_iprpc"), ("", "_sub", "_stake", "_iprpc")))
    behs = H.flatten(fams) + H.directed_common()
    H.common_cov(ctx, behs)
    rows = H.hunt(ctx, "Trace_LavaChain_C10.cfg", behs, "hist", _sig, _what)
    mx = {k: max(r["obl"][k] for r in rows) for k in ("ds", "iprpc", "sub", "subfut", "subtimer")}
    ctx.cov["max_obligation_seen"] = mx
    ctx.cov["states_with_obligation"] = {k: sum(1 for r in rows if r["obl"][k] > 0) for k in ("ds", "iprpc", "sub", "subfut", "subtimer")}
    if min(mx.values()) == 0:
        raise vlib.Infra("vacuous: an obligation kind never became positive: %s" % mx)


def replay(ctx, path):
    with open(path) as f:
        obj = vlib.json.load(f)
    tpath, rows = H.drive(ctx, obj["behaviours"], "replay")
    bad = H.validate(ctx, "Trace_LavaChain_C10.cfg", tpath, "replay_v")
    if bad:
        ev = rows[bad["line"] - 1]
        prev = rows[bad["line"] - 2]
        ctx.violation(_sig(bad["kind"], prev, ev), "replayed history still fails: " + _what(bad["kind"], prev, ev, bad["line"] - 1),
                      {"behaviours": obj["behaviours"]})
