"""C40 Provider selection for pairing is proportional to stake x geo score.  (DESIGN.md section 4, C40)

M: Pairing.tla, C40Init (plain policies, all stake / geolocation combinations) exhaustively over every draw r:
   invariant IntervalRule - every r picks a valid unpicked provider, the number of r values that pick provider i is
   its score (exactly for Den = 1; within one unit when scores are rounded, config *_c40r), hence no eligible
   provider with positive stake has zero chance and chances are proportional to stake x geo score among the
   providers not yet picked.
G: TLC emits random configurations (GenInit).
R: harness/t/pairing builds them on a real Tester and queries GetPairing for several epochs (different epoch hashes);
   it logs the stake table, the effective policy and the raw Int63 outputs of the public utils/rand.New(hashData)
   (hashData = scores.PrepareHashData(project, chain, epoch hash, group)).
V: Trace_Pairing (Conf on the picked providers): real list = PairingFor(eff, tab, rng): the spec predicts every
   effective total itself, derives r = (v mod total) + 1 and applies the interval rule; a wrong total or a wrong
   interval in the code desynchronises the picks.  Slots without mix filters decide (PickConfPlain); configurations
   with mix filters are compared as drift (PickConfAll).
Dust stage: configurations whose scores are tiny integers (stakes 1..3 ulava, provider geolocation AS vs policy USC/USE =>
   geo score 1), pure and mixed with one ordinary provider, 2 slots, 130/220 epoch hashes: every draw lands on or next to an
   interval boundary, so an off-by-one in the draw or in the hit test changes the pick at once (Conf), and TLC checks on the
   real picks that every eligible provider with positive stake has been paired once its miss probability is < e^-14
   (NoZeroChance: the real-code witness of "no zero chance").
"""
import json
import os
import vlib

LEVEL = "model_checking"

_c02 = None


def lib():
    global _c02
    if _c02 is None:
        import importlib.util
        p = os.path.join(os.path.dirname(os.path.abspath(__file__)), "C02.py")
        spec = importlib.util.spec_from_file_location("check_C02_lib", p)
        _c02 = importlib.util.module_from_spec(spec)
        spec.loader.exec_module(_c02)
    return _c02


def _is_plain(r):
    return r["eff"].get("mode") != 1 and not any(q.get("mx") for q in r["eff"].get("reqs", []))


def _picks(r):
    elig = sum(1 for t in r["tab"] if t["ok"])
    return len(r["list"]) if (not r["err"] and 0 < len(r["list"]) < elig) else 0


def _check(ctx, cfgs, tag, epochs, only=None):
    L = lib()
    env = {"VERIF_EPOCHS": epochs}
    if only is not None:
        env["VERIF_ONLY"] = only      # rebuild the whole batch (same accounts / hashes), query one configuration
    tpath, rows = L.drive(ctx, cfgs, tag, env=env)
    bad = L.validate(ctx, tpath, "Trace_Pairing_c40.cfg", tag)
    return tpath, rows, bad


def _report(ctx, L, cfgs, rows, bad, epochs, tag):
    """Re-execute the suspected configuration in a fresh process; report only if it fails again."""
    cfg, r = L.cfg_of_line(rows, cfgs, bad["line"])
    if cfg is None:
        raise vlib.Infra("violating line %d has no configuration" % bad["line"])
    _, rows2, bad2 = _check(ctx, cfgs, "repro_" + tag, epochs, only=cfg["id"])
    if bad2 is None:
        raise vlib.Infra("counter-example not reproduced on configuration %s (%s)" % (cfg["id"], bad["inv"]))
    r2 = rows2[bad2["line"] - 1]
    small = any(t["stake"] <= 3 for t in r2["tab"] if t["ok"])
    cls = L.features(r2) + ("-dust" if small else "")
    table = json.dumps([[t["p"], t["stake"], t["geo"], t["ok"]] for t in r2["tab"]])
    if bad2["inv"] == "NoZeroChance":
        ctx.violation("zero-chance@%s" % cls,
                      "an eligible provider with positive stake was never paired although its chance per epoch is >= 14/epochs: "
                      "cfg=%s after epoch=%s table=%s policy geo=%s" % (cfg["id"], r2["epoch"], table, r2["eff"]["geo"]),
                      {"configs": cfgs, "only": cfg["id"], "epochs": epochs})
    else:
        ctx.violation("pick-differs-from-interval-rule@%s" % cls,
                      "real pairing list %s is not what the interval rule yields for the same PRNG outputs: cfg=%s epoch=%s table=%s" % (
                          r2["list"], cfg["id"], r2["epoch"], table),
                      {"configs": cfgs, "only": cfg["id"], "epochs": epochs})


def _dust_stage(ctx, L):
    """Scores that are tiny integers (stake 1..3 ulava x geo score 1): draws land on interval boundaries in every epoch, and
    over enough epoch hashes every provider must actually be paired (NoZeroChance, judged by TLC on the real picks)."""
    epochs = ctx.pick(130, 220)
    cfgs = L.gen_configs(ctx, ctx.pick("Pairing_gend.cfg", "Pairing_gendt.cfg"), "gend")
    tpath, rows, bad = _check(ctx, cfgs, "dust", epochs)
    qs = [r for r in rows if r["ev"] == "q" and not r["mid"] and not r["err"]]
    pure = [c for c in cfgs if all(p["stake"] <= 3 for p in c["prov"])]
    reached = 0
    for c in pure:
        n = sum(1 for r in qs if r["cfg"] == c["id"])
        W = sum(p["stake"] for p in c["prov"])
        if all(n * p["stake"] >= 14 * W for p in c["prov"]):
            reached += 1
    dust_picks = sum(len(r["list"]) for r in qs)
    ctx.cov["c40_dust"] = {"configs": len(cfgs), "pure_dust_configs": len(pure), "epochs": epochs, "picks_compared": dust_picks,
                           "configs_where_every_provider_reached_the_must_be_seen_threshold": reached}
    if reached < ctx.pick(2, 6) or dust_picks < ctx.pick(800, 4000):
        raise vlib.Infra("vacuous dust coverage: %s" % ctx.cov["c40_dust"])
    if bad:
        _report(ctx, L, cfgs, rows, bad, epochs, "dust")
        return False
    ctx.cov["traces_validated_against_impl"] += len(cfgs)
    return True


def run(ctx):
    L = lib()
    skip_mc = bool(os.environ.get("VERIF_SKIP_MC"))  # selftest knob: mutant runs only exercise the binding
    if skip_mc:
        ctx.notes.append("VERIF_SKIP_MC set: exhaustive TLC stage skipped (not a verdict-grade run)")
    for name, cfg in (() if skip_mc else (("exact proportionality (Den=1)", ctx.pick("Pairing_c40q.cfg", "Pairing_c40.cfg")),
                                          ("rounded scores (Den=3)", "Pairing_c40r.cfg"))):
        mc = vlib.tlc_mc(ctx, "Pairing", cfg, timeout=ctx.pick(900, 3600), tag="mc_" + cfg[:-4])
        if mc["violated"]:
            raise vlib.Infra("design-level spec violates %s (see %s)" % (mc["violated"], mc["outfile"]))
        ctx.add_mc("Pairing C40Init " + name, mc)
    epochs = ctx.pick(6, 10)
    cfgs = L.gen_configs(ctx, ctx.pick("Pairing_gen40.cfg", "Pairing_gen40t.cfg"), "gen")
    tpath, rows, bad = _check(ctx, cfgs, "sim", epochs)
    qs = [r for r in rows if r["ev"] == "q"]
    plain = [r for r in qs if _is_plain(r)]
    npicks = sum(_picks(r) for r in plain)
    ctx.cov["c40"] = {"configs": len(cfgs), "queries": len(qs), "plain_queries_with_picks": sum(1 for r in plain if _picks(r)),
                      "picks_compared": npicks, "mix_queries_with_picks": sum(1 for r in qs if not _is_plain(r) and _picks(r)),
                      "epoch_hashes": len({(r["cfg"], r["epoch"]) for r in qs})}
    ctx.cov["evaluations"] = npicks
    ctx.cov["distinct_nontrivial"] = len({json.dumps([r["tab"], r["eff"], r["rng"][0][0]], sort_keys=True) for r in plain if _picks(r)})
    ctx.cov["rule"] = ("one evaluation = one slot filled by the real PickProviders and compared with the spec's interval rule under the "
                       "same PRNG output; non-trivial = query where fewer providers are picked than are eligible (a weighted draw "
                       "happens); distinct by (stake table, effective policy, first PRNG output)")
    ctx.sample({"cfg": cfgs[0]})
    ctx.assumptions += L.ASSUMPTIONS + [
        "uniformity of math/rand (proportionality is proved relative to it); Int63n's rejection loop (probability < 2^-38 here) is ignored",
        "LegacyDec scores equal the spec's rationals: 10000/latency has denominator 21 in the explored universe, sums are never half-way"]
    if npicks < ctx.pick(150, 1500):
        raise vlib.Infra("vacuous coverage: only %d weighted draws compared" % npicks)
    if bad:
        _report(ctx, L, cfgs, rows, bad, epochs, "sim")
        return
    if not _dust_stage(ctx, L):
        return
    ctx.cov["traces_validated_against_impl"] += len(cfgs)
    ctx.cov["trace_events"] = len(rows)
    d = L.validate(ctx, tpath, "Trace_Pairing_c40mix.cfg", "sim_mix")
    if d:
        ctx.drift.append("pairing list with mix filters differs from the spec's PairingFor at trace line %d (%s)" % (
            d["line"], L.features(rows[d["line"] - 1])))


def replay(ctx, path):
    L = lib()
    with open(path) as f:
        obj = json.load(f)
    _, rows, bad = _check(ctx, obj["configs"], "replay", obj.get("epochs", 10), only=obj.get("only"))
    if bad:
        ctx.violation("%s@%s" % ("zero-chance" if bad["inv"] == "NoZeroChance" else "pick-differs-from-interval-rule",
                                 L.features(rows[bad["line"] - 1])),
                      "replayed configuration still deviates (%s)" % bad["inv"], obj)
