"""C23 Delegation credit is a bounded time-weighted average.  (DESIGN.md section 4, C23)

M: specs/Credit.tla (line-by-line transcription of CalculateCredit / CalculateMonthlyCredit and of the
   credit bookkeeping of SetDelegation / RemoveDelegation, real constants 720 h x 3600 s) exhaustively
   over all histories of <= 4 steps; every model state that breaks a clause of the property is
   printed as a candidate; the classification claims "every bound violation is of the F20 class,
   every monotonicity violation of the F20 or F21 class" are invariants of that run.
G: the candidates + TLC -simulate behaviours (8 steps over 17 gaps x 11 amounts).
R: harness/t/credit replays them through the real MsgDelegate / MsgUnbond / MsgRedelegate handlers on a
   Tester whose block time is advanced by the gaps; stored record + CalculateMonthlyCredit logged.
V: Trace_Credit: Conf (stored record and monthly credit equal the model's, rejection = violation) and
   the three stated clauses evaluated by TLC on every real state (reported per signature).
"""
import os
import random
import re
import vlib

LEVEL = "model_checking"
ZONES = ("UTC", "America/New_York", "Europe/Berlin", "Australia/Sydney")
LEADS = (1, 12, 35)


def envs_for(behs, seed):
    """The spec is zone-free; the real code must be too.  Every behaviour runs under one process time zone
    (time.Local) and starts `lead` days before a DST transition of that zone, so that evaluation times fall into the
    30 days after spring-forward / fall-back transitions (a quarter of the behaviours per zone)."""
    res = []
    for i in range(len(behs)):
        j = i + seed
        tz = ZONES[j % len(ZONES)]
        if tz == "UTC":
            res.append({"tz": tz, "lead": 0, "kind": ""})
        else:
            res.append({"tz": tz, "lead": LEADS[(j // len(ZONES)) % len(LEADS)], "kind": ("spring", "fall")[(j // (len(ZONES) * len(LEADS))) % 2]})
    return res
_VIOL = re.compile(r'^<<"(VIOL|NOTE|COV)", (\d+), "([^"]+)">>$', re.M)


def _drive(ctx, behs, envs, tag):
    binp = getattr(ctx, "_credit_bin", None)
    if binp is None:
        binp = ctx._credit_bin = vlib.go_test_build("credit")
    bpath = os.path.join(ctx.work, tag + "_behaviours.json")
    tpath = os.path.join(ctx.work, tag + "_trace.ndjson")
    vlib.write_json(bpath, {"behs": behs, "env": envs})
    vlib.run_test_harness(binp, {"VERIF_IN": bpath, "VERIF_OUT": tpath, "VERIF_SEED": ctx.seed, "TZ": "UTC"}, timeout=3000)
    rows = vlib.read_ndjson(tpath)
    if sum(1 for r in rows if r["ev"] == "reset") != len(behs):
        raise vlib.Infra("credit driver wrote %d behaviours, expected %d" % (
            sum(1 for r in rows if r["ev"] == "reset"), len(behs)))
    return tpath, rows


def _validate(ctx, behs, tag, max_rounds=3, envs=None):
    """Replay + TLC validation. Returns (findings, stats): findings = list of dict(sig, beh, line, event)."""
    findings = []
    stats = {"events": 0, "ops": {}, "cov": {}, "notes": 0, "validated": 0}
    if envs is None:
        envs = envs_for(behs, ctx.seed)
    todo = list(behs)
    tenv = list(envs)
    stats["zones"] = {}
    rounds = 0
    while todo:
        rounds += 1
        if rounds > max_rounds:
            stats["unvalidated_after_rejections"] = len(todo)
            break
        tpath, rows = _drive(ctx, todo, tenv, "%s_r%d" % (tag, rounds))
        res = vlib.tlc_trace(ctx, "Trace_Credit", "Trace_Credit.cfg", tpath, tag="%s_r%d" % (tag, rounds),
                             timeout=1800)
        upto = len(rows)
        rejected = None
        if not res["accepted"]:
            if res["violated"] != "postcondition":
                raise vlib.Infra("trace validation stopped with %s (see %s)" % (res["violated"], res["outfile"]))
            line = (res["reached"] or 0) + 1
            bi, chunk, off = vlib.locate_trace(rows, line)
            ev = rows[line - 1]
            what = "panic" if ev.get("panic") else ("tx-rejected" if not ev.get("ok") else "model-mismatch")
            findings.append({"sig": "conf@%s:%s" % (ev.get("ev"), what), "beh": todo[bi], "env": dict(tenv[bi], at=chunk[0].get("at", 0)),
                             "line": off, "event": ev})
            rejected = bi
            upto = line - off  # lines of the behaviours before the rejected one are fully validated
        for m in _VIOL.finditer(res["out"]):
            kind, ln, sig = m.group(1), int(m.group(2)), m.group(3)
            if ln > upto:
                continue
            if kind == "VIOL":
                bi, chunk, off = vlib.locate_trace(rows, ln)
                findings.append({"sig": sig, "beh": todo[bi], "env": dict(tenv[bi], at=chunk[0].get("at", 0)), "line": off,
                                 "event": rows[ln - 1]})
            elif kind == "NOTE":
                stats["notes"] += 1
            else:
                stats["cov"][sig] = stats["cov"].get(sig, 0) + 1
        for r in rows[:upto]:
            if r["ev"] == "reset":
                stats["zones"][r.get("tz", "UTC")] = stats["zones"].get(r.get("tz", "UTC"), 0) + 1
            stats["events"] += 1
            stats["ops"][r["ev"]] = stats["ops"].get(r["ev"], 0) + 1
        if rejected is None:
            stats["validated"] += len(todo)
            todo = []
        else:
            stats["validated"] += rejected
            todo = todo[rejected + 1:]
            tenv = tenv[rejected + 1:]
    return findings, stats


def _what(f):
    ev = f["event"]
    return ("%s at step %d of the behaviour (process time zone %s, started %s days before a %s DST transition): after %s(gap=%ss, arg=%s) the stored delegation is %s and "
            "CalculateMonthlyCredit = %s" % (f["sig"], f["line"] - 1, f["env"]["tz"], f["env"]["lead"], f["env"]["kind"] or "no", ev.get("ev"), ev.get("gap"), ev.get("arg"),
                                              vlib.json.dumps(ev.get("d"), sort_keys=True), ev.get("mc")))


def _confirm(ctx, findings):
    """One fresh re-execution per distinct signature (shortest behaviour first)."""
    by_sig = {}
    for f in findings:
        cur = by_sig.get(f["sig"])
        if cur is None or len(f["beh"]) < len(cur["beh"]):
            by_sig[f["sig"]] = f
    for i, (sig, f) in enumerate(sorted(by_sig.items())):
        again, _ = _validate(ctx, [f["beh"]], "repro%d" % i, envs=[f["env"]])
        same = [g for g in again if g["sig"] == sig]
        if not same:
            raise vlib.Infra("counter-example not reproduced: %s" % sig)
        ctx.violation(sig, _what(same[0]), {"behaviours": [f["beh"]], "env": [f["env"]]})


def run(ctx):
    bad = []
    for cfg, label in ctx.pick(
            [("Credit_mcq.cfg", "<=3 steps, 5 amounts x 3 gaps"), ("Credit_mcq4.cfg", "<=4 steps, 3 amounts x 2 gaps")],
            [("Credit_mc.cfg", "<=4 steps, 5 amounts x 5 gaps")]):
        mc = vlib.tlc_mc(ctx, "Credit", cfg, timeout=ctx.pick(900, 5400))
        if mc["violated"]:
            raise vlib.Infra("design-level run stops with %s: the classification of the model's own violations no "
                             "longer holds, repair the spec (see %s)" % (mc["violated"], mc["outfile"]))
        ctx.add_mc("Credit exhaustive (720h x 3600s, %s)" % label, mc)
        bad += vlib.parse_emitted(mc["out"], "BAD")
    cands = []
    rnd = random.Random(ctx.seed)
    for cls in sorted({b["cls"] for b in bad}):
        grp = sorted([b["beh"] for b in bad if b["cls"] == cls], key=lambda b: (len(b), vlib.json.dumps(b)))
        keep = grp[:4]
        rest = grp[4:]
        rnd.shuffle(rest)
        cands += keep + rest[:ctx.pick(20, 200)]
    ctx.cov["model_level_candidates"] = {"total": len(bad), "replayed": len(cands)}
    if not ctx.quick:
        small = vlib.tlc_mc(ctx, "Credit", "Credit_small.cfg", timeout=3600)
        if small["violated"]:
            raise vlib.Infra("scaled-down design-level run stops with %s (see %s)" % (small["violated"], small["outfile"]))
        ctx.add_mc("Credit exhaustive (6h x 2 ticks, <=4 steps)", small)
    sim = vlib.tlc_sim(ctx, "Credit", "Credit_sim.cfg", num=ctx.pick(300, 3000), depth=9, timeout=1800)
    behs = cands + sim["behaviours"]
    ctx.cov["evaluations"] = len(behs)
    ctx.cov["distinct_nontrivial"] = len({vlib.json.dumps(b) for b in behs
                                          if sum(1 for s in b if s["op"] != "eval") >= 2 and any(s["gap"] > 0 for s in b)})
    ctx.cov["rule"] = ("behaviour = sequence of (gap seconds, set amount | touch | eval) steps; candidates = model states "
                       "breaking a clause in the exhaustive run, rest = TLC -simulate of Credit.tla GenNext (8 steps, 17 gaps "
                       "from 0 s to 60 d incl. +-1 s around 1 h and 30 d, 11 amounts 0..123456); non-trivial = at least two "
                       "amount-changing operations and a positive gap; distinct by full step list")
    ctx.sample(behs[0])
    ctx.sample(sim["behaviours"][0])
    ctx.assumptions += [
        "one (provider, delegator) record; one validator, no slashing; amounts <= 123456 and <= 8 steps per history",
        "the clause 'holding longer never lowers credit' is demanded only for steps in which no larger amount leaves "
        "the 30-day window (a sliding time-weighted average falls otherwise by definition); see docs/notes/C23.md",
        "block time advanced in one block per gap (begin/end blockers of all modules run)",
        "process time zones UTC, America/New_York, Europe/Berlin, Australia/Sydney (a quarter of the behaviours each), "
        "behaviours started 1 / 12 / 35 days before a spring-forward or fall-back transition of the zone",
    ]
    findings, st = _validate(ctx, behs, "main")
    ctx.cov["traces_validated_against_impl"] += st["validated"]
    ctx.cov["trace_events"] = st["events"]
    ctx.cov["ops"] = st["ops"]
    ctx.cov["behaviours_per_process_time_zone"] = st["zones"]
    ctx.cov["clause_coverage"] = st["cov"]
    ctx.cov["literal_monotone_falls_seen"] = st["notes"]
    if any(f["sig"].startswith("conf@") for f in findings):
        _confirm(ctx, findings)   # the real code left the model: coverage thresholds are meaningless
        return
    need = ctx.pick(100, 1000)
    for op in ("set", "touch", "eval"):
        if st["ops"].get(op, 0) < need:
            raise vlib.Infra("vacuous: only %d accepted %s steps" % (st["ops"].get(op, 0), op))
    for c in ("hold", "settled"):
        if st["cov"].get(c, 0) < 20:
            raise vlib.Infra("vacuous: clause '%s' exercised on %d real states only" % (c, st["cov"].get(c, 0)))
    _confirm(ctx, findings)


def replay(ctx, path):
    with open(path) as f:
        obj = vlib.json.load(f)
    findings, _ = _validate(ctx, obj["behaviours"], "replay", envs=obj.get("env"))
    done = set()
    for f in findings:
        if f["sig"] in done:
            continue
        done.add(f["sig"])
        ctx.violation(f["sig"], _what(f), {"behaviours": [f["beh"]], "env": [f["env"]]})
