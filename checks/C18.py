"""C18 Badge usage never exceeds the badge allocation.  (DESIGN.md section 4, C18)

M: Payments.tla exhaustively: badgeUsed[(badge, provider)] with its expiry timer, checkBadge /
   handleBadgeCu in code order; C18_UsedLeAlloc (usage record <= allocation), C18_CreditLeAlloc (ghost:
   CU rewarded through a badge to a provider <= allocation), C18_Step (a relay is honoured through a
   badge only for the badge's own user, epoch and lava chain, only while the usage record's timer has
   not fired, and the usage record grows by at least the relay's CU).
G: TLC -simulate, profile c18: badge relays (two allocations, several sessions / providers / epochs),
   somebody else's badge, wrong epoch / chain / issuer, mixed with plain relays, record expiry.
R: harness/t/payments with real badge signatures (developer key signs the badge, badge user signs the relay).
V: Obs mode decides (BadgeUsedCu records and accept/reject outcomes of the real chain); Conf: drift only.
"""
import os
import importlib.util
import vlib

_spec = importlib.util.spec_from_file_location("_pay", os.path.join(os.path.dirname(os.path.abspath(__file__)), "_pay.py"))
_pay = importlib.util.module_from_spec(_spec)
_spec.loader.exec_module(_pay)

LEVEL = "model_checking"
CFG = "Trace_Payments_C18.cfg"


def applied(ev, x):
    """The badge the chain applies to relay x: the first badge of the transaction for (signer, block)."""
    if x["tm"] != "none":
        return None
    for y in ev["rs"]:
        b = y["b"]
        if b["u"] != "-" and (b["u"], b["e"], b["o"]) == (x["sg"], x["e"], x["o"]):
            return b
    return None


def classify(violated, ev, prev):
    name = (violated or "").split(":")[-1]
    huge = any(x["cuv"] >= 1000000 for x in ev.get("rs", []) if x.get("acc"))
    suffix = "@cu-sum-overflow" if huge else ""
    if name == "C18_UsedLeAlloc":
        return "badge-used>allocation" + suffix
    if name == "C18_CreditLeAlloc":
        return "badge-credit>allocation" + suffix
    if ev.get("ev") == "pay":
        st = ev["st"]
        for x in ev["rs"]:
            b = applied(ev, x) if x["acc"] else None
            if not b:
                continue
            if not b["lc"]:
                return "badge-honoured:wrong-chain"
            if b["e"] + 3 < st["cur"] or (b["e"] + 3 == st["cur"] and b["o"] <= st["off"]):
                return "badge-honoured:after-expiry"
        return "badge-usage-not-recorded" + suffix
    return name


def run(ctx):
    if not os.environ.get("VERIF_PAY_SKIP_MC"):   # development aid for mutant runs: replay only
        g = _pay.mc(ctx, "Payments ladder exhaustive", "Payments_mcq.cfg", timeout=ctx.pick(900, 3600))
        if g["violated"]:
            raise vlib.Infra("design-level spec violates %s; spec must be repaired (see %s)" % (g["violated"], g["outfile"]))
    behs = _pay.generate(ctx, "c18", num=ctx.pick(60, 500), depth=13)
    ctx.cov["evaluations"] = len(behs)
    ctx.sample(behs[0])
    rows, tpath = _pay.decide(ctx, behs, CFG, "c18", classify, max_iter=ctx.pick(2, 4))
    if ctx.violations:
        return      # reproduced violation(s): the verdict stands, coverage accounting is moot
    cov = _pay.coverage(rows)
    over = expired = 0
    maxfill = 0
    for ch in vlib.split_traces(rows):
        had = set()
        for r in ch:
            now = {vlib.json.dumps(kv["k"]) for kv in r["st"]["bused"]}
            expired += len(had - now)
            had = now
            for kv in r["st"]["bused"]:
                maxfill = max(maxfill, kv["v"] * 100 // max(1, kv["k"][4]))
            if r["ev"] == "pay" and not r["ok"]:
                # rejected although only the allocation stands in the way?
                for x in r["rs"]:
                    b = x["b"]
                    if b["u"] != "-" and b["u"] == x["sg"]:
                        usedv = [kv["v"] for kv in r["st"]["bused"] if kv["k"][:6] == [b["u"], b["is"], b["e"], b["o"], b["al"], b["lc"]] and kv["k"][6] == r["p"]]
                        if (usedv[0] if usedv else 0) + x["cuv"] > b["al"]:
                            over += 1
    cov["over_allocation_attempts"] = over
    cov["records_expired"] = expired
    cov["max_fill_percent"] = maxfill
    ctx.cov["driver"] = cov
    ctx.cov["distinct_nontrivial"] = len({vlib.json.dumps(b) for b, ch in zip(behs, vlib.split_traces(rows))
                                          if any(x["acc"] and x["b"]["u"] == x["sg"] for r in ch for x in r["rs"])})
    ctx.cov["rule"] = ("behaviours = TLC -simulate runs of Payments.tla GenNext profile c18 (12 steps); non-trivial = at least one relay "
                       "accepted through a badge; distinct by full action list")
    if cov["badge_acc"] < 20 or over < 5 or expired < 3 or maxfill < 75 or cov["tx_ok"] < 20:
        raise vlib.Infra("vacuous coverage: %s" % cov)
    _pay.note_conf(ctx, tpath, "c18_conf", len(rows))
    ctx.assumptions += _pay.ASSUMPTIONS


def replay(ctx, path):
    _pay.replay_file(ctx, path, classify)
