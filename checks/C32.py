"""C32 Archive routing follows the configured block rule.  (DESIGN.md section 4, C32)

M: ArchiveRule.tla - the statement's iff (NeedsArchive) and a branch-by-branch transcription of
   isPassingRule + the eth_call clause with modelled uint64 wrap-around; TLC checks on the whole grid
   that the (guarded) transcription is the statement, plus sanity properties of the statement.
   The unguarded transcription (code as found, F12) is run too - its counter-example is only a note.
G: TLC emits the grid exhaustively (requested x latest x rule x method), expected answer included.
R: harness/cmd/chainparse renders nothing itself: this file renders each vector as a real JSON-RPC
   request; the driver parses it with the real JsonRPCChainParser (ETH1 spec from /repo/specs, archive
   extension enabled via SetPolicyFromAddonAndExtensionMap, rule distance patched before SetSpec) and
   also drives the real ExtensionParser/ArchiveParserRule on a (latest, earliest) pair.
V: Trace_ArchiveRule - TLC evaluates NeedsArchive on every (input, real output) line; the property is
   "marking = the statement", so a differing line is a violation (Conf on GetExtensions()).
"""
import json
import os
import re
import vlib

LEVEL = "model_checking"

TAGS = {-1: None, -2: "latest", -3: "earliest", -4: "pending", -5: "safe", -6: "finalized"}
TAGNAME = {-1: "n/a", -2: "latest", -3: "earliest", -4: "pending", -5: "safe", -6: "finalized"}
ADDR = "0x" + "11" * 20


def render(v):
    """(method, requested block) -> real JSON-RPC request. n/a = block parameter omitted."""
    params = [{"to": ADDR, "data": "0x"}] if v["method"] == "eth_call" else [ADDR]
    if v["req"] >= 0:
        params.append(hex(v["req"]))
    elif TAGS[v["req"]] is not None:
        params.append(TAGS[v["req"]])
    return json.dumps({"jsonrpc": "2.0", "id": 1, "method": v["method"], "params": params})


COSMOS = {"rest_block": "rest", "tm_block": "tendermintrpc", "grpc_block": "grpc"}
LAV1_NATIVE_RULE = 5680


def render_cosmos(v):
    """-> (url, data, conn, expected api name) for the LAV1 interfaces."""
    blk = str(v["req"]) if v["req"] >= 0 else TAGS[v["req"]]
    if v["method"] == "rest_block":
        api = "/cosmos/base/tendermint/v1beta1/blocks/" + ("latest" if blk == "latest" else "{height}")
        return "/cosmos/base/tendermint/v1beta1/blocks/" + blk, "", "GET", api
    if v["method"] == "tm_block":
        return "", json.dumps({"jsonrpc": "2.0", "id": 1, "method": "block", "params": {"height": blk}}), "", "block"
    api = "cosmos.base.tendermint.v1beta1.Service/GetBlockByHeight"
    return api, json.dumps({"height": blk}), "", api


def _lav1_rule():
    """archive rule distance of the checked-in LAV1 spec (the grid's 5680 must be the real value)."""
    path = os.path.join(vlib.REPO, "specs", "testnet-2", "specs", "lava.json")
    try:
        with open(path) as f:
            d = json.load(f)
        rules = {e["rule"]["block"] for sp in d["proposal"]["specs"] if sp["index"] == "LAV1"
                 for c in sp["api_collections"] for e in (c.get("extensions") or []) if e["name"] == "archive"}
    except Exception as e:
        raise vlib.Infra("cannot read the LAV1 archive rule from %s: %s" % (path, e))
    return rules


def _jobs(vectors):
    jobs = []
    for v in vectors:
        inn = {k: v[k] for k in ("req", "latest", "rule", "method")}
        rule_item = {"kind": "rule", "rl": -2, "re": v["req"], "latest": v["latest"], "rule": v["rule"]}
        if v["method"] in COSMOS:
            url, data, conn, api = render_cosmos(v)
            inn["api"] = api
            # the native rule of the spec is used unpatched (rule 0 = leave the checked-in value)
            jobs.append({"in": inn, "spec": "LAV1", "iface": COSMOS[v["method"]],
                         "rule": 0 if v["rule"] == LAV1_NATIVE_RULE else v["rule"], "policy": ["archive"],
                         "items": [{"url": url, "data": data, "conn": conn, "latest": v["latest"]}, rule_item]})
            continue
        inn["api"] = v["method"]
        jobs.append({"in": inn, "spec": "ETH1", "iface": "jsonrpc", "rule": v["rule"], "policy": ["archive"],
                     "items": [{"url": "", "data": render(v), "conn": "POST", "latest": v["latest"]}, rule_item]})
    return jobs


def signature(kind, v, out):
    real = out["arch"]
    req = "tag" if v["req"] < 0 else "num"
    if v["req"] == -3:
        req = "earliest"
    lat = "latest=0" if v["latest"] == 0 else ("latest<=126" if v["latest"] <= 126 else "latest>126")
    if v["method"] in COSMOS:
        lat = "latest=0" if v["latest"] == 0 else ("latest<=rule" if v["latest"] <= v["rule"] else "latest>rule")
    where = v["method"] if kind == "conf" else "ExtensionParser"
    if out.get("panic"):
        return "panic@%s:%s:%s" % (where, req, lat)
    return "%s-archive@%s:%s:%s" % ("spurious" if real else "missing", where, req, lat)


_BIN = {}


def _bin():
    if "p" not in _BIN:
        _BIN["p"] = vlib.go_build("chainparse")
    return _BIN["p"]


def _validate(ctx, vectors, tag):
    """-> list of failures dict(kind, vector, out, sig)."""
    binp = _bin()
    jpath = os.path.join(ctx.work, tag + "_jobs.json")
    tpath = os.path.join(ctx.work, tag + "_trace.ndjson")
    vlib.write_json(jpath, {"repo": vlib.REPO, "jobs": _jobs(vectors)})
    vlib.run_harness(binp, [jpath, tpath])
    rows = vlib.read_ndjson(tpath)
    if len(rows) != len(vectors):
        raise vlib.Infra("driver produced %d lines for %d vectors" % (len(rows), len(vectors)))
    res = vlib.tlc_trace(ctx, "Trace_ArchiveRule", "Trace_ArchiveRule.cfg", tpath, tag=tag)
    if not res["accepted"] or res["reached"] != len(rows):
        raise vlib.Infra("trace walk incomplete (%s, reached %s of %d; see %s)" % (
            res["violated"], res["reached"], len(rows), res["outfile"]))
    fails = []
    for m in re.finditer(r'<<"BAD", (\d+), "(\w+)">>', res["out"]):
        i, kind = int(m.group(1)), m.group(2)
        row = rows[i - 1]
        o = row["out"][1] if kind == "rule" else row["out"][0]
        if kind == "panic":
            fails.append({"kind": kind, "vector": vectors[i - 1], "out": o,
                          "sig": "%s@%s" % ("hang" if o.get("hang") else "panic", row["in"]["method"])})
            continue
        if kind == "bind":
            raise vlib.Infra("binding: vector %s did not parse to the intended block/method: %s" % (
                json.dumps(row["in"]), json.dumps(o)[:300]))
        fails.append({"kind": kind, "vector": vectors[i - 1], "out": o, "sig": signature(kind, row["in"], o)})
    ctx.cov["traces_validated_against_impl"] += len(rows)
    ctx.cov["real_archive_true"] = ctx.cov.get("real_archive_true", 0) + sum(1 for r in rows if r["out"][0]["arch"])
    ctx.cov["real_archive_false"] = ctx.cov.get("real_archive_false", 0) + sum(1 for r in rows if not r["out"][0]["arch"])
    return fails


def run(ctx):
    mc = vlib.tlc_mc(ctx, "ArchiveRule", ctx.pick("ArchiveRule_mcq.cfg", "ArchiveRule_mc.cfg"), timeout=600)
    if mc["violated"]:
        raise vlib.Infra("design-level: guarded transcription / statement sanity violates %s (see %s)" % (
            mc["violated"], mc["outfile"]))
    ctx.add_mc("ArchiveRule grid (guarded transcription = statement)", mc)
    if not ctx.quick:
        ug = vlib.tlc_mc(ctx, "ArchiveRule", "ArchiveRule_unguarded.cfg", timeout=600, tag="ArchiveRule_unguarded")
        ctx.notes.append("design-level: transcription of the code as found (eth_call clause without underflow guard) %s" % (
        "violates CodeIsStatement: " + " ".join(ug["out"][ug["out"].find("Error: Invariant"):].split())[:200]
        if ug["violated"] else "does not violate CodeIsStatement on the quick grid (unexpected)"))

    em = vlib.tlc_emit(ctx, "ArchiveRule", ctx.pick("ArchiveRule_emitq.cfg", "ArchiveRule_emit.cfg"), timeout=600)
    vectors = em["behaviours"]
    if len(vectors) != mc["distinct"]:
        raise vlib.Infra("emitted %d vectors but the grid has %d points" % (len(vectors), mc["distinct"]))
    # second grid: the cosmos interfaces of the LAV1 spec (REST / Tendermint RPC / gRPC), native rule 5680 and rule 100
    if _lav1_rule() != {LAV1_NATIVE_RULE}:
        raise vlib.Infra("the checked-in LAV1 archive rule is %s, the grid assumes %d" % (_lav1_rule(), LAV1_NATIVE_RULE))
    mcc = vlib.tlc_mc(ctx, "ArchiveRule", "ArchiveRule_cosmos.cfg", timeout=600, tag="ArchiveRule_cosmos")
    if mcc["violated"]:
        raise vlib.Infra("design-level: cosmos grid violates %s (see %s)" % (mcc["violated"], mcc["outfile"]))
    ctx.add_mc("ArchiveRule cosmos grid (LAV1 rest/tendermintrpc/grpc)", mcc)
    emc = vlib.tlc_emit(ctx, "ArchiveRule", "ArchiveRule_cosmosemit.cfg", timeout=600, tag="ArchiveRule_cosmosemit")
    if len(emc["behaviours"]) != mcc["distinct"]:
        raise vlib.Infra("emitted %d cosmos vectors but the grid has %d points" % (len(emc["behaviours"]), mcc["distinct"]))
    vectors = vectors + emc["behaviours"]
    ctx.cov["evaluations"] = len(vectors)
    nontriv = [v for v in vectors if v["req"] >= 0 and v["latest"] > 0]
    ctx.cov["distinct_nontrivial"] = len(nontriv)
    ctx.cov["expected_archive_true"] = sum(1 for v in vectors if v["exp"])
    ctx.cov["expected_archive_false"] = sum(1 for v in vectors if not v["exp"])
    ctx.cov["rule"] = ("vectors = every point of the TLC grid (requested block in tags + numbers, latest, rule distance, "
                       "method), each rendered as one JSON-RPC request and parsed by the real parser; non-trivial = numeric "
                       "requested block and known latest block (rule arithmetic decides)")
    ctx.sample({k: vectors[0][k] for k in ("req", "latest", "rule", "method", "exp")})
    ctx.sample(render(nontriv[0]))
    if ctx.cov["expected_archive_true"] < 50 or ctx.cov["expected_archive_false"] < 50 or len(nontriv) < 200:
        raise vlib.Infra("vacuous grid: %s" % ctx.cov)
    ctx.assumptions += ["grid bounded by specs/ArchiveRule_*.cfg (block numbers <= 5000; uint64 modelled modulo 2^20)",
                        "JSON-RPC interface of the checked-in ETH1 spec (eth_call, eth_getBalance) and the REST / Tendermint RPC / gRPC "
                        "block-by-height APIs of the checked-in LAV1 spec (native rule 5680, and 100 by patching)",
                        "rule distances other than 127 obtained by patching the loaded Spec value before SetSpec",
                        "request carries no explicit extension choice (ExtensionOverride nil)"]
    fails = _validate(ctx, vectors, "grid")
    if ctx.cov["real_archive_true"] == 0 and not fails:
        raise vlib.Infra("dead binding: the real parser never attached the archive extension to any of %d requests" % len(vectors))
    seen = {}
    for f in fails:
        seen.setdefault(f["sig"], []).append(f)
    ctx.cov["failing_vectors"] = len(fails)
    if not seen:
        return
    # one fresh driver + TLC run on the witnesses only
    again = _validate(ctx, [fl[0]["vector"] for fl in seen.values()], "repro")
    for sig, fl in sorted(seen.items()):
        w = fl[0]
        if not [a for a in again if a["sig"] == sig and a["vector"] == w["vector"]]:
            raise vlib.Infra("counter-example not reproduced: %s %s" % (sig, json.dumps(w["vector"])))
        v = w["vector"]
        if w["kind"] == "panic":
            ctx.violation(sig, "ParseMsg %s on %s requested=%s latest=%d rule=%d: %s (%d grid points in this class)" % (
                "hung" if w["out"].get("hang") else "panicked", v["method"], TAGNAME.get(v["req"], v["req"]), v["latest"], v["rule"],
                w["out"].get("panics"), len(fl)),
                {"vectors": [w["vector"]], "request": render_cosmos(v)[:2] if v["method"] in COSMOS else render(v)})
            continue
        ctx.violation(sig, "%s requested=%s latest=%d rule=%d: real archive marking=%s, statement says %s (%d grid points in this class)" % (
            v["method"] if w["kind"] == "conf" else "ExtensionParser(earliest)",
            TAGNAME.get(v["req"], v["req"]), v["latest"], v["rule"], w["out"]["arch"],
            v["exp"] if w["kind"] == "conf" else v["expE"], len(fl)),
            {"vectors": [w["vector"]], "request": render_cosmos(v)[:2] if v["method"] in COSMOS else render(v)})


def replay(ctx, path):
    with open(path) as f:
        obj = json.load(f)
    for f in _validate(ctx, obj["vectors"], "replay"):
        ctx.violation(f["sig"], "replayed vector still fails: %s -> archive=%s" % (
            json.dumps(f["vector"]), f["out"]["arch"]), {"vectors": [f["vector"]]})
