"""C34 Consumer relay retries stop correctly and terminate.  (DESIGN.md section 4, C34)

M: RelaySM.tla exhaustively per selection mode (select-loop branches, reader / validateReturnCondition
   goroutines, consumer loop, providers, processing timeout as actions) - invariants OneFinal,
   AfterSuccess, Justified, ModeAttempts, AttemptsBoundedPipe and action properties AfterFinalSilent,
   NoAttemptAfterSuccess, NoResendAfterSend, NoRetryAfterNR, SendRetriesBounded; thorough tier adds
   Termination under fairness.  RetryPolicy.tla holds Decide / OnSend as operators.
G: (a) RetryPolicyEmit.tla prints the whole bounded input domain of Decide and OnSendRelayResult with the
   spec's outputs; (b) tlc -simulate on RelaySM.tla GenNext emits environment schedules.
R: harness/cmd/relaysm  policy: real relaypolicy.Policy on the same inputs;  sm: real
   UnifiedRelayStateMachine + real Policy + real UsedProviders driven by the schedules, full event log.
V: (a) outputs must be equal on every row (exhaustive equivalence - the decision table IS the property);
   (b) TLC validates the logs against Trace_RelaySMObs.tla: Obs invariants on the real events decide,
   and every Decide / OnSendRelayResult call the real machine made is re-evaluated with the spec operators.
"""
import os
import random
import vlib

LEVEL = "model_checking"
CFG = {"maxRetries": 3, "sendAttempts": 2, "retryLimit": 2, "tp": False, "maxP": 3, "thr": 2}

SIGS = {
    "invariant:ObsNoRetryAfterNR": "retry-after-nonretryable-error",
    "invariant:ObsOneFinal": "final-instruction-not-exactly-once",
    "invariant:ObsJustified": "instruction-without-retry-decision",
    "invariant:ObsNoResend": "resend-after-successful-send@stateful-or-cv",
    "invariant:ObsAttempts": "attempts-exceed-bound",
    "invariant:ObsSendRetries": "send-retries-exceed-bound",
    "invariant:ObsDecideConf": "decide-differs-from-RetryPolicy",
    "invariant:ObsOnSendConf": "onsend-differs-from-RetryPolicy",
    "invariant:ObsSelection": "selection-mode-wrong",
}


def _key(row):
    return vlib.json.dumps(row[:8] if len(row) == 12 else row[0])


def _policy_equiv(ctx, cfg, tag):
    """exhaustive equivalence of Decide / OnSendRelayResult with RetryPolicy.tla on the emitted domain"""
    em = vlib.tlc_emit(ctx, "RetryPolicyEmit", cfg, timeout=ctx.pick(900, 3000), tag=tag)
    groups = em["behaviours"]
    binp = vlib.go_build("relaysm")
    gin = os.path.join(ctx.work, tag + "_in.json")
    gout = os.path.join(ctx.work, tag + "_out.ndjson")
    vlib.write_json(gin, groups)
    vlib.run_harness(binp, ["policy", gin, gout])
    real = vlib.read_ndjson(gout)
    if len(real) != len(groups):
        raise vlib.Infra("policy driver answered %d of %d groups" % (len(real), len(groups)))
    rows = 0
    bad = []
    reasons = set()
    for g, r in zip(groups, real):
        exp = {_key(x): x for x in g["rows"]}
        got = {_key(x): x for x in r["rows"]}
        if set(exp) != set(got):
            raise vlib.Infra("policy driver row sets differ for group %s" % vlib.json.dumps(g["g"]))
        for k, x in exp.items():
            rows += 1
            if len(x) == 12:
                reasons.add(x[9])
            if got[k] != x:
                bad.append({"g": g["g"], "spec": x, "real": got[k]})
    return rows, bad, reasons, groups


def _sig_policy(b):
    if b["g"]["kind"] == "decide":
        return "decide-differs-from-RetryPolicy@%s->%s" % (b["spec"][9], b["real"][9])
    return "onsend-differs-from-RetryPolicy"


def _gen(ctx, num):
    behs = []
    for sel in ("stateless", "stateful", "cv"):
        sim = vlib.tlc_sim(ctx, "RelaySM", "RelaySM_sim_%s.cfg" % sel, num=num, depth=120, tag="RelaySM_sim_" + sel,
                           timeout=900)
        bs = sim["behaviours"]
        rnd = random.Random(ctx.seed)
        rnd.shuffle(bs)
        for b in bs[:num]:
            c = dict(CFG)
            c["sel"] = sel
            behs.append({"cfg": c, "steps": b})
    # hand-picked deterministic schedule classes, first in the list so that they are the preferred witnesses
    # (random schedules that hit the same class through a select race reproduce less reliably)
    st = lambda *a: [({"a": x} if isinstance(x, str) else x) for x in a]
    res = lambda k: {"a": "result", "k": k}
    hand = [
        # F34 witness; a second relay stays in flight so that validateReturnCondition cannot end the relay first
        {"cfg": dict(CFG, sel="stateless"), "steps": st("take", "send_ok", "tick", "take", "send_ok", "tick", "take", res("nr"), "settle",
                                                        {"a": "send_err", "e": "err"}, "take", "send_ok", "take")},
        {"cfg": dict(CFG, sel="stateful"), "steps": st("take", "send_ok", res("ne"), "take", "send_ok", "take")},
        {"cfg": dict(CFG, sel="cv"), "steps": st("take", "send_ok", res("ne"), "take", "send_ok", "take")},
        {"cfg": dict(CFG, sel="stateless"), "steps": st("take", "send_ok", res("ok"), "take", "tick", "take")},
        {"cfg": dict(CFG, sel="stateless", tp=True), "steps": st("take", "send_ok", "tick", "take", "timeout", "take")},
        {"cfg": dict(CFG, sel="stateless", maxRetries=10, sendAttempts=3),
         "steps": st("take", "send_ok", res("ne"), "take", "send_ok", res("ne"), "take", "send_ok", res("ne"), "settle", "take")},
    ]
    return hand + behs


def _validate(ctx, behs, tag):
    binp = vlib.go_build("relaysm")
    bpath = os.path.join(ctx.work, tag + "_behaviours.json")
    tpath = os.path.join(ctx.work, tag + "_trace.ndjson")
    vlib.write_json(bpath, behs)
    vlib.run_harness(binp, ["sm", bpath, tpath], env={"VERIF_REPO": vlib.REPO})
    rows = vlib.read_ndjson(tpath)
    bads = []
    # TLC stops at the first violated invariant; continue behind the offending behaviour to collect every class
    offset = 0
    cur_rows = rows
    cur_path = tpath
    rounds = 0
    while cur_rows and rounds < (6 if ctx.quick else 12):
        rounds += 1
        res = vlib.tlc_trace(ctx, "Trace_RelaySMObs", "Trace_RelaySMObs.cfg", cur_path, tag="%s_obs%d" % (tag, rounds))
        if res["accepted"]:
            break
        if res["violated"] == "postcondition" or not res["violated"].startswith("invariant:"):
            raise vlib.Infra("Obs trace validation stopped unexpectedly: %s (see %s)" % (res["violated"], res["outfile"]))
        line = vlib.violated_line(res)
        if line is None:
            raise vlib.Infra("cannot locate violating line (see %s)" % res["outfile"])
        bi, chunk, off = vlib.locate_trace(cur_rows, line)
        gi = chunk[0]["beh"]
        bads.append({"sig": SIGS.get(res["violated"], res["violated"]), "beh": behs[gi], "line": off,
                     "event": chunk[off - 1] if off - 1 < len(chunk) else {}, "inv": res["violated"], "log": chunk})
        # drop everything up to and including that behaviour
        nxt = None
        for j in range(line, len(cur_rows)):
            if cur_rows[j]["ev"] == "reset":
                nxt = j
                break
        if nxt is None:
            break
        cur_rows = cur_rows[nxt:]
        cur_path = os.path.join(ctx.work, "%s_trace_rest%d.ndjson" % (tag, rounds))
        vlib.write_ndjson(cur_path, cur_rows)
    return rows, bads


def _coverage(ctx, rows, nbeh):
    evs = {}
    for r in rows:
        evs[r["ev"]] = evs.get(r["ev"], 0) + 1
    reasons = {r["out"]["reason"] for r in rows if r["ev"] == "decide"}
    sends = {r["res"] for r in rows if r["ev"] == "onsend"}
    finals = {r["err"] for r in rows if r["ev"] == "take" and r["done"]}
    for need in ("take", "send_ok", "send_err", "result", "decide", "onsend", "hasreq", "end"):
        if evs.get(need, 0) == 0:
            raise vlib.Infra("vacuous: no '%s' event in %d real traces" % (need, nbeh))
    if not ({"retry", "stop", "success"} <= sends):
        raise vlib.Infra("vacuous: OnSendRelayResult outcomes seen %s" % sorted(sends))
    if len(reasons) < 4 or len(finals) < 2:
        raise vlib.Infra("vacuous: Decide reasons %s, final kinds %s" % (sorted(reasons), sorted(finals)))
    if evs.get("end", 0) != nbeh:
        raise vlib.Infra("driver finished %d of %d behaviours" % (evs.get("end", 0), nbeh))
    ctx.cov["trace_events"] = len(rows)
    ctx.cov["decide_reasons_in_traces"] = sorted(reasons)
    ctx.cov["final_kinds_in_traces"] = sorted(finals)
    ctx.cov["event_counts"] = evs


def _conf_drift(ctx, rows):
    """second pass, drift only: is the log a behaviour of RelaySM.tla (silent steps searched by TLC)?"""
    per = {}
    cur = None
    for r in rows:
        if r["ev"] == "reset":
            ok = (r["maxRetries"], r["sendAttempts"], r["retryLimit"], r["tp"]) == (CFG["maxRetries"], CFG["sendAttempts"], CFG["retryLimit"], False)
            cur = r["sel"] if ok else None
        if cur:
            per.setdefault(cur, []).append(r)
    for sel, rs in sorted(per.items()):
        path = os.path.join(ctx.work, "conf_%s.ndjson" % sel)
        vlib.write_ndjson(path, rs)
        try:
            res = vlib.tlc_trace(ctx, "Trace_RelaySM", "Trace_RelaySM_%s.cfg" % sel, path, tag="conf_" + sel, timeout=1800)
        except vlib.Infra as e:
            ctx.drift.append("Conf pass (%s) did not run: %s" % (sel, str(e)[:200]))
            continue
        nb = sum(1 for r in rs if r["ev"] == "reset")
        if res["accepted"]:
            ctx.notes.append("Conf: %d %s logs (%d events) are behaviours of RelaySM.tla" % (nb, sel, len(rs)))
        else:
            ctx.drift.append("Conf (%s): log not a behaviour of RelaySM.tla after event line %s of %d" % (sel, res["reached"], len(rs)))


def run(ctx):
    # ---- M
    cfgs = ctx.pick(["RelaySM_mcq.cfg", "RelaySM_mcq_stateful.cfg", "RelaySM_mcq_cv.cfg"],
                    ["RelaySM_mc.cfg", "RelaySM_mcq_stateful.cfg", "RelaySM_mcq_cv.cfg"])
    for cfg in cfgs:
        mc = vlib.tlc_mc(ctx, "RelaySM", cfg, timeout=ctx.pick(900, 3600))
        if mc["violated"]:
            raise vlib.Infra("design-level spec violates %s under %s (see %s)" % (mc["violated"], cfg, mc["outfile"]))
        ctx.add_mc("RelaySM " + cfg, mc)
    if not ctx.quick:
        lv = vlib.tlc_mc(ctx, "RelaySM", "RelaySM_live.cfg", timeout=3600)
        if lv["violated"]:
            raise vlib.Infra("design-level: Termination fails under fairness (see %s)" % lv["outfile"])
        ctx.add_mc("RelaySM RelaySM_live.cfg (Termination, fairness)", lv)
    # history of finding F34: without the fix (FixF34 = FALSE) the strict form fails on the spec
    nr = vlib.tlc_mc(ctx, "RelaySM", "RelaySM_nr.cfg", timeout=900)
    ctx.notes.append("design-level strict NoRetryAfterNR on RelaySM with FixF34=FALSE (code before the F34 fix): %s" % (nr["violated"] or "holds"))
    if not ctx.quick:
        fx = vlib.tlc_mc(ctx, "RelaySM", "RelaySM_fix.cfg", timeout=1800)
        ctx.notes.append("design-level strict NoRetryAfterNR on RelaySM with fixes/F34 modelled (FixF34=TRUE): %s, %d states" % (
            fx["violated"] or "holds", fx["distinct"]))

    # ---- exhaustive equivalence of the decision functions
    rows1, bad1, reasons, _ = _policy_equiv(ctx, ctx.pick("RetryPolicy_emitq.cfg", "RetryPolicy_emit.cfg"), "decide")
    rows2, bad2, _, _ = _policy_equiv(ctx, ctx.pick("RetryPolicy_sendq.cfg", "RetryPolicy_send.cfg"), "send")
    if len(reasons) < 9:
        raise vlib.Infra("vacuous: Decide reasons covered by the emitted domain: %s" % sorted(reasons))
    ctx.cov["evaluations"] = rows1 + rows2
    ctx.cov["decide_rows_equal"] = rows1 - len(bad1)
    ctx.cov["onsend_sequences_equal"] = rows2 - len(bad2)
    for b in (bad1 + bad2)[:1]:
        # re-execute that single group in a fresh process
        gin = os.path.join(ctx.work, "repro_in.json")
        gout = os.path.join(ctx.work, "repro_out.ndjson")
        vlib.write_json(gin, [{"g": b["g"], "rows": [b["spec"]]}])
        vlib.run_harness(vlib.go_build("relaysm"), ["policy", gin, gout])
        again = vlib.read_ndjson(gout)[0]["rows"][0]
        if again == b["spec"]:
            raise vlib.Infra("policy mismatch not reproduced")
        ctx.violation(_sig_policy(b), "real relaypolicy differs from RetryPolicy.tla: input %s spec %s real %s (%d rows differ)" % (
            vlib.json.dumps(b["g"]), b["spec"], again, len(bad1) + len(bad2)), {"policy": [{"g": b["g"], "rows": [b["spec"]]}]})

    # ---- real state machine traces
    behs = _gen(ctx, ctx.pick(30, 150))
    ctx.cov["distinct_nontrivial"] = len({vlib.json.dumps(b) for b in behs if len(b["steps"]) >= 4})
    ctx.cov["rule"] = ("policy: every row of the TLC-emitted bounded domain (see specs/RetryPolicy_emit*.cfg, RetryPolicy_send.cfg); "
                       "state machine: environment schedules = TLC -simulate runs of RelaySM.tla GenNext per selection mode "
                       "(take/send_ok/send_err/result/tick/settle/timeout), non-trivial = at least 4 environment steps, distinct by schedule")
    ctx.sample(behs[0])
    rows, bads = _validate(ctx, behs, "sim")
    _coverage(ctx, rows, len(behs))
    ctx.cov["traces_validated_against_impl"] += len(behs)
    ctx.assumptions += [
        "TLC bounded constants (specs/RelaySM_mc*.cfg); Decide/OnSend equivalence is exhaustive only over the emitted bounded domain",
        "ticker, 15 ms validateReturnCondition sleep and goroutine scheduling are real time: the schedules the Go runtime produced "
        "are validated, not all schedules (all schedules are explored on RelaySM.tla only)",
        "mock relay sender / results checker; archive re-parsing returns the same message",
        "attempt bound checked: batches sent <= 2*MaxRetries+2 (the literal MaxRetries bound does not hold under pipelined decisions, see docs/notes/C34.md)",
    ]
    if not ctx.quick:
        _conf_drift(ctx, rows)
    # schedule dependent: every signature is re-executed in fresh processes (up to 3 witnesses x 3 attempts)
    by_sig = {}
    for bad in bads:
        by_sig.setdefault(bad["sig"], []).append(bad)
    for sig, cands in by_sig.items():
        rep = None
        k = 0
        for bad in cands[:3]:
            for _ in range(3):
                k += 1
                _, again = _validate(ctx, [bad["beh"]], "repro%d" % k)
                hit = [a for a in again if a["sig"] == sig]
                if hit:
                    rep = (hit[0], bad)
                    break
            if rep:
                break
        if rep is None:
            raise vlib.Infra("counter-example not reproduced: %s" % sig)
        ctx.violation(sig, "real UnifiedRelayStateMachine violates %s at log line %d: %s" % (
            rep[0]["inv"], rep[0]["line"], vlib.json.dumps(rep[0]["event"])[:300]), {"behaviours": [rep[1]["beh"]]})


def replay(ctx, path):
    with open(path) as f:
        obj = vlib.json.load(f)
    if "policy" in obj:
        gin = os.path.join(ctx.work, "replay_in.json")
        gout = os.path.join(ctx.work, "replay_out.ndjson")
        vlib.write_json(gin, obj["policy"])
        vlib.run_harness(vlib.go_build("relaysm"), ["policy", gin, gout])
        real = vlib.read_ndjson(gout)
        for g, r in zip(obj["policy"], real):
            if g["rows"] != r["rows"]:
                ctx.violation(_sig_policy({"g": g["g"], "spec": g["rows"][0], "real": r["rows"][0]}),
                              "replayed input still differs: spec %s real %s" % (g["rows"][0], r["rows"][0]), obj)
        return
    for k in range(3):
        _, bads = _validate(ctx, obj["behaviours"], "replay%d" % k)
        if bads:
            ctx.violation(bads[0]["sig"], "replayed behaviour still fails %s: %s" % (
                bads[0]["inv"], vlib.json.dumps(bads[0]["event"])[:300]), obj)
            return
