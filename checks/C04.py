"""C04 Credited CU never exceeds signed CU or the epoch allowance.  (DESIGN.md section 4, C04; defect F2)

M: Payments.tla exhaustively (small constants).  EnforceClientCUsUsageInEpoch is transcribed over
   naturals-with-wrap, in two variants (constant F2Fixed): the code as found and the repaired
   function.  TLC itself exhibits the wrap on the as-found variant (design-level candidate).
G: TLC -simulate (profile c04: project with a TotalCuLimit below the plan's, CU 10..1000, QoS
   reports, downtime, epochs) emits behaviours.
R: harness/t/payments replays them on the real chain (real keys sign the relays).
V: Obs mode decides: C04_LeSigned (rewardedCU <= CuSum), C04_EpochBound (sum of rewarded CU per
   provider/project/epoch <= epoch allowance x downtime factor), C04_Qos (tracked CU grows by at most
   the rewarded CU and never shrinks) are evaluated by TLC on the real transitions.
   Conf mode tells which variant the code conforms to (and reports drift); the exhaustive run of the
   C04 properties is made on that variant.
"""
import os
import importlib.util
import vlib

_spec = importlib.util.spec_from_file_location("_pay", os.path.join(os.path.dirname(os.path.abspath(__file__)), "_pay.py"))
_pay = importlib.util.module_from_spec(_spec)
_spec.loader.exec_module(_pay)

LEVEL = "model_checking"
CFG = "Trace_Payments_C04.cfg"
EFF_TOTAL = {"c1/adm": 1000, "c1/low": 100}


def classify(violated, ev, prev):
    """Canonical signature of a C04 violation (names the failing input class / code branch)."""
    name = (violated or "").split(":")[-1]
    total_branch = False
    over = False
    huge = False
    for x in ev.get("rs", []):
        if not x.get("acc"):
            continue
        if x["cu"] in (1000000, 1000001):      # CuSum > MaxInt64 (2^63-1 itself is a legal value)
            huge = True
        if x["rew"] > x["cuv"]:
            over = True
        g = [x["e"], ev["p"], x["proj"], x["sp"]]
        tot = [kv["v"] for kv in ev["st"]["pcec"] if kv["k"] == g]
        if tot and tot[0] >= EFF_TOTAL.get(x["proj"], 1 << 60):
            total_branch = True
    where = "@cu-sum-overflow" if huge else "@total-cu-limit-branch" if total_branch else "@epoch-limit-branch"
    if over or (name in ("C04_PLe",) and total_branch):
        return "credited>signed" + where
    if name == "C04_PEpoch":
        return "epoch-sum>allowance" + where
    if name == "C04_PQos":
        return "tracked-cu-delta" + where
    return name + where


def run(ctx):
    num = ctx.pick(60, 400)
    behs = _pay.generate(ctx, "c04", num=num, depth=11)
    ctx.cov["evaluations"] = len(behs)
    ctx.sample(behs[0])
    rows, tpath = _pay.decide(ctx, behs, CFG, "c04", classify, max_iter=ctx.pick(2, 4))
    if ctx.violations:
        ctx.cov["driver"] = _pay.coverage(rows)
        return      # reproduced violation(s): the verdict stands
    cov = _pay.coverage(rows)
    ctx.cov["driver"] = cov
    ctx.cov["distinct_nontrivial"] = len({vlib.json.dumps(b) for b, ch in zip(behs, vlib.split_traces(rows))
                                          if sum(1 for r in ch if r["ev"] == "pay" and r["ok"]) >= 2})
    ctx.cov["rule"] = ("behaviours = TLC -simulate runs of Payments.tla GenNext profile c04 (10 steps: pay 1-3 relays / epoch / block / "
                       "late block); non-trivial = at least two accepted payment transactions; distinct by full action list")
    if (cov["tx_ok"] < max(10, len(behs) // 2) or cov["relays_acc"] < 20 or cov["capped"] < 3 or cov["epoch"] < 5 or cov["down"] < 1
            or cov["huge"] < 5 or cov["bigdown"] < 3 or cov["late_claims"] < 1):
        raise vlib.Infra("vacuous coverage: %s" % cov)

    # which transcription does the code follow?  (drift otherwise)
    variant = _pay.note_conf(ctx, tpath, "c04_conf", len(rows), match_tracked=True)

    # design level, on the transcription the code conforms to (default: the fully repaired one)
    if os.environ.get("VERIF_PAY_SKIP_MC"):   # development aid for mutant runs: replay only
        return
    sfx = {"asis": "", "f2": "_fixed", "f2+f2c": "_fixed2", None: "_fixed2"}[variant]
    m = _pay.mc(ctx, "Payments C04 properties (%s)" % (variant or "f2+f2c"),
                ctx.pick("Payments_mcq_c04%s.cfg", "Payments_mc_c04%s.cfg") % sfx, timeout=ctx.pick(900, 3600))
    if m["violated"]:
        msg = "design level: TLC violates %s on the '%s' transcription (candidate only; the verdict comes from the replay)" % (
            m["violated"], variant or "f2+f2c")
        ctx.notes.append(msg)
        if variant != "asis":
            raise vlib.Infra(msg + " - a repaired transcription must satisfy C04 (see %s)" % m["outfile"])
    ctx.assumptions += _pay.ASSUMPTIONS


def replay(ctx, path):
    _pay.replay_file(ctx, path, classify)
