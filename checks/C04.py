"""C04 Credited CU never exceeds signed CU or the epoch allowance.  (DESIGN.md section 4, C04; defect F2)

M: Payments.tla exhaustively (small constants).  EnforceClientCUsUsageInEpoch is transcribed over
   naturals-with-wrap, in two variants (constant F2Fixed): the code as found and the repaired
   function.  TLC itself exhibits the wrap on the as-found variant (design-level candidate).
G: TLC -simulate (profile c04: project with a TotalCuLimit below the plan's, CU 10..1000, QoS
   reports, downtime, epochs) emits behaviours.
R: harness/t/payments replays them on the real chain (real keys sign the relays).
V: Obs mode decides: C04_LeSigned (rewardedCU <= CuSum), C04_EpochBound (sum of rewarded CU per
   provider/project/epoch <= epoch allowance x downtime factor), C04_Qos (tracked CU grows by at most
   the rewarded CU and never shrinks) are evaluated by TLC on the real transitions.
   Conf mode tells which variant the code conforms to (and reports drift); the exhaustive run of the
   C04 properties is made on that variant.
"""
import os
import importlib.util
import vlib

_spec = importlib.util.spec_from_file_location("_pay", os.path.join(os.path.dirname(os.path.abspath(__file__)), "_pay.py"))
_pay = importlib.util.module_from_spec(_spec)
_spec.loader.exec_module(_pay)

LEVEL = "model_checking"
CFG = "Trace_Payments_C04.cfg"
EFF_TOTAL = {"c1/adm": 1000, "c1/low": 100}


def classify(violated, ev, prev):
    """Canonical signature of a C04 violation (names the failing input class / code branch)."""
    name = (violated or "").split(":")[-1]
    total_branch = False
    over = False
    for x in ev.get("rs", []):
        if not x.get("acc"):
            continue
        if x["rew"] > x["cuv"]:
            over = True
        g = [x["e"], ev["p"], x["proj"], x["sp"]]
        tot = [kv["v"] for kv in ev["st"]["pcec"] if kv["k"] == g]
        if tot and tot[0] >= EFF_TOTAL.get(x["proj"], 1 << 60):
            total_branch = True
    where = "@total-cu-limit-branch" if total_branch else "@epoch-limit-branch"
    if over or name in ("C04_PLe", "C04_PQos") and total_branch:
        return "credited>signed" + where
    if name == "C04_PEpoch":
        return "epoch-sum>allowance" + where
    return name + where


def run(ctx):
    num = ctx.pick(60, 400)
    behs = _pay.generate(ctx, "c04", num=num, depth=11)
    ctx.cov["evaluations"] = len(behs)
    ctx.sample(behs[0])
    rows, tpath = _pay.decide(ctx, behs, CFG, "c04", classify, max_iter=ctx.pick(2, 4))
    if ctx.violations:
        ctx.cov["driver"] = _pay.coverage(rows)
        return      # reproduced violation(s): the verdict stands
    cov = _pay.coverage(rows)
    ctx.cov["driver"] = cov
    ctx.cov["distinct_nontrivial"] = len({vlib.json.dumps(b) for b, ch in zip(behs, vlib.split_traces(rows))
                                          if sum(1 for r in ch if r["ev"] == "pay" and r["ok"]) >= 2})
    ctx.cov["rule"] = ("behaviours = TLC -simulate runs of Payments.tla GenNext profile c04 (10 steps: pay 1-3 relays / epoch / block / "
                       "late block); non-trivial = at least two accepted payment transactions; distinct by full action list")
    if cov["tx_ok"] < max(10, len(behs) // 2) or cov["relays_acc"] < 20 or cov["capped"] < 3 or cov["epoch"] < 5 or cov["down"] < 1:
        raise vlib.Infra("vacuous coverage: %s" % cov)

    # which transcription does the code follow?  (drift otherwise)
    variant, ra, rf = _pay.conf(ctx, tpath, "c04_conf")
    ctx.cov["conforms_to"] = variant
    if variant is None:
        ctx.drift.append("real chain is a behaviour of neither transcription of EnforceClientCUsUsageInEpoch: "
                         "as-found accepted %s lines, repaired accepted %s lines of %d" % (ra, rf, len(rows)))
    else:
        v2, _, _ = _pay.conf(ctx, tpath, "c04_conf_tracked", match_tracked=True)
        if v2 != variant:
            ctx.drift.append("tracked CU differs from the model once a uint64 wrap occurred (residue mod 2^64 is not representable)")
    fixed = variant == "fixed"

    # design level
    if os.environ.get("VERIF_PAY_SKIP_MC"):   # development aid for mutant runs: replay only
        return
    m = _pay.mc(ctx, "Payments C04 properties (%s)" % (variant or "as-found"),
                "Payments_mcq_c04_fixed.cfg" if fixed else "Payments_mcq_c04.cfg", timeout=ctx.pick(900, 3600))
    if m["violated"]:
        msg = "design level: TLC violates %s on the %s transcription (candidate only; the verdict comes from the replay)" % (
            m["violated"], "repaired" if fixed else "as-found")
        ctx.notes.append(msg)
        if fixed:
            raise vlib.Infra(msg + " - the repaired transcription must satisfy C04 (see %s)" % m["outfile"])
    ctx.assumptions += _pay.ASSUMPTIONS


def replay(ctx, path):
    _pay.replay_file(ctx, path, classify)
