"""C28 Consumer sessions account CU exactly and are never shared.  (DESIGN.md section 4, C28)

M: ConsumerSessions.tla exhaustively (Relay processes GetSessions -> in flight -> Done | DoneIncreaseCUOnly |
   Failure(kind), PairingUpdate, async unblock goroutines) - invariants Exclusive, Accounting, Bound, Signed,
   BlockedRule, action property RelayNumMono.
G: seeded behaviour parameters (goroutines, providers, CU budget, error mix, pairing updates); the schedules are
   those the Go runtime produces under a GOMAXPROCS sweep (and under -race in the thorough tier) - weaker than
   exhaustive schedules, stated in meta/notes.
R: harness/t/conssess drives the real, unmodified ConsumerSessionManager against in-process fake provider
   endpoints; events are logged while sessions are held, complete state at barriers.
V: TLC validates the recorded traces: Trace_ConsumerSessions (Obs mode) DECIDES - the C28 predicates are evaluated
   on the values the real code showed; TraceConf_ConsumerSessions (Conf mode, internal steps silent) is drift-only.
"""
import os
import random
import re

import vlib

LEVEL = "model_checking"
OBS_INVS = ["ObsExclusive", "ObsRelayNum", "ObsSigned", "ObsUsedBracket", "ObsBound", "ObsAccounting", "ObsBlockedRule"]
MAXSESS = 3
DEEP = True
FAMILY = {"ObsAccounting": "acct", "ObsUsedBracket": "acct", "ObsBound": "acct"}


def gen_behaviours(seed, n, deep):
    rnd = random.Random(seed)
    behs = []
    for i in range(n):
        np_ = rnd.choice([2, 3, 3])
        b = {
            "id": i, "seed": rnd.randint(1, 2 ** 31 - 2),
            "g": rnd.choice([2, 3, 3, 4]), "np": np_,
            "maxcu": rnd.choice([4, 6, 8, 12]), "cus": rnd.choice([[1, 2], [1, 3], [2, 5], [1]]),
            "maxve": rnd.choice([0, 0, 1, 2]),
            "rounds": rnd.randint(3, 6), "tickets": rnd.randint(4, 12),
            "updates": rnd.choice([0, 1, 1, 2]),
            "pfail": rnd.randint(20, 70), "pblock": rnd.randint(5, 35), "preport": rnd.randint(0, 20),
            "psync": rnd.randint(5, 35), "pinc": rnd.randint(0, 40), "pfresh": rnd.randint(30, 90),
            "solo": 70, "ext": (rnd.choice([0, 0, 30, 60]) if deep else 0),
            "drop": ([] if rnd.random() < 0.5 else ["p%d" % np_]),
        }
        behs.append(b)
    return behs


def gen_tight(seed, n, rounds):
    """Tight-budget behaviours: MaxComputeUnits = the requested CU, round k runs in virtual epoch k, every relay is
    completed before the next round => each provider has room for exactly one more relay when 16 goroutines, released
    together, ask for it.  The only way to see a check-then-act race in the reservation (probabilistic: a few hits per
    1000 rounds on a 16-core box, see notes)."""
    rnd = random.Random(seed * 7919 + 13)
    behs = []
    for i in range(n):
        cu = rnd.choice([5, 10])
        behs.append({"id": i, "seed": rnd.randint(1, 2 ** 31 - 2), "g": 16, "np": 2, "maxcu": cu, "cus": [cu],
                     "tight": rounds, "snap": 3})
    return behs


def _drive(ctx, behs, tag, gomaxprocs, race=False, parallel=8):
    binp = vlib.go_test_build("conssess", race=race)
    ipath = os.path.join(ctx.work, tag + "_in.json")
    tpath = os.path.join(ctx.work, tag + "_trace.ndjson")
    vlib.write_json(ipath, {"maxsess": MAXSESS, "parallel": parallel, "behaviours": behs})
    if os.path.exists(tpath):
        os.remove(tpath)
    env = {"VERIF_IN": ipath, "VERIF_OUT": tpath, "GOMAXPROCS": str(gomaxprocs)}
    if race:
        env["GORACE"] = "halt_on_error=0"
    p = vlib.run_test_harness(binp, env, timeout=1800, check=not race)
    races = 0
    if race:
        races = p.stdout.count("WARNING: DATA RACE")
        if not os.path.exists(tpath) or "behaviours=" not in p.stdout:
            raise vlib.Infra("race driver died: %s" % p.stdout[-2000:])
        if races:
            frames = sorted(set(re.findall(r"lavasession\.\(\*\w+\)\.\w+(?:\.func\d+)?\(\)", p.stdout)))
            ctx.notes.append("go race detector: %d report(s) in %s (not a verdict; frames: %s)" % (
                races, tag, ", ".join(frames[:12])))
    return tpath, races


def _stats(rows, cov):
    c = cov.setdefault("events", {})
    pre = None
    relst = {}
    rnd = 0
    for r in rows:
        e = r["ev"]
        key = e + (":" + r["kind"] if e == "end" else "") + (":" + r["tag"] if e == "barrier" else "") + (
            ":" + r["err"] if e == "nogot" else "")
        c[key] = c.get(key, 0) + 1
        if e == "reset":
            pre = None
            relst = {}
            rnd = 0
        elif e == "callN":
            rnd += 1
            c["tight_rounds"] = c.get("tight_rounds", 0) + 1
        elif e == "call":
            if r.get("addon"):
                c["call_addon"] = c.get("call_addon", 0) + 1
            relst[r["r"]] = ("calling", r["seq"], pre is not None and r["seq"] == pre["seq"] + 1)
        elif e == "got":
            st = relst.get(r["r"])
            if st and st[2] and r["seq"] == st[1] + 1 and pre is not None:
                c["solo_got"] = c.get("solo_got", 0) + 1
                if r["pp"] not in pre["valid"] and pre["valid"]:
                    c["solo_got_from_blocked"] = c.get("solo_got_from_blocked", 0) + 1
            if r["rn"] > 1:
                c["got_reused_session"] = c.get("got_reused_session", 0) + 1
            if r["used"] > r["max"]:
                c["got_ve"] = c.get("got_ve", 0) + 1   # reservation only possible through a virtual epoch
            if r["rep"]:
                c["got_with_reported_providers"] = c.get("got_with_reported_providers", 0) + 1
        elif e == "barrier" and r["tag"] == "tight":
            # the premise of the phase: every provider is exactly at its limit max*(ve+1) with the relays in flight
            if all(o["used"] == o["max"] * rnd for o in r["objs"]):
                c["tight_barrier_at_limit"] = c.get("tight_barrier_at_limit", 0) + 1
        elif e == "barrier":
            pre = r
            if any(s["lk"] for o in r["objs"] for s in o["sess"]):
                c["barrier_with_sessions_in_flight"] = c.get("barrier_with_sessions_in_flight", 0) + 1
            if r["blocked"]:
                c["barrier_with_blocked_providers"] = c.get("barrier_with_blocked_providers", 0) + 1
            if r["resets"]:
                c["barrier_after_reset"] = c.get("barrier_after_reset", 0) + 1
            if any(o["e"] < r["epoch"] and any(s["lk"] for s in o["sess"]) for o in r["objs"]):
                c["old_epoch_session_in_flight"] = c.get("old_epoch_session_in_flight", 0) + 1


def _validate(ctx, behs, tag, gomaxprocs, race=False, conf=False, parallel=8):
    """Drive + Obs validation. Returns None or a dict describing the first violated invariant."""
    tpath, _ = _drive(ctx, behs, tag, gomaxprocs, race, parallel)
    rows = vlib.read_ndjson(tpath)
    nreset = sum(1 for r in rows if r["ev"] == "reset")
    if nreset != len(behs):
        raise vlib.Infra("driver recorded %d behaviours, expected %d" % (nreset, len(behs)))
    res = vlib.tlc_trace(ctx, "Trace_ConsumerSessions", "Trace_ConsumerSessions.cfg", tpath, tag=tag + "_obs",
                         timeout=1800)
    if not res["accepted"]:
        if res["violated"] == "postcondition":
            raise vlib.Infra("Obs trace spec did not consume the whole trace (reached %s of %s, see %s)" % (
                res["reached"], res["total"], res["outfile"]))
        line = vlib.violated_line(res) or (res["reached"] or 1)
        inv = res["violated"].split(":")[-1]
        if inv == "ObsProtocol":
            raise vlib.Infra("driver log protocol broken at trace line %s (see %s)" % (line, res["outfile"]))
        if inv not in OBS_INVS:
            raise vlib.Infra("unexpected TLC result %s on trace validation (see %s)" % (res["violated"], res["outfile"]))
        bi, chunk, off = vlib.locate_trace(rows, line)
        evr = rows[line - 1] if line - 1 < len(rows) else {}
        sig = "%s@%s" % (inv, evr.get("ev") + (":" + evr.get("tag") if evr.get("ev") == "barrier" else ""))
        chk = re.findall(r"/\\ chk = (.*?)(?:\n/\\ |\Z)", res.get("state_dump", ""), re.S)
        return {"sig": sig, "inv": inv, "beh": behs[bi] if 0 <= bi < len(behs) else None, "line": off,
                "event": evr, "chk": (chk[-1][:600] if chk else ""), "gomaxprocs": gomaxprocs}
    ctx.cov["traces_validated_against_impl"] += len(behs)
    ctx.cov["trace_events"] = ctx.cov.get("trace_events", 0) + len(rows)
    _stats(rows, ctx.cov)
    if conf:
        # Conf mode is the expensive part: quick tier validates the first 4 behaviours, thorough all of them
        keep = ctx.pick(4, 16)
        cpath = os.path.join(ctx.work, tag + "_conf_trace.ndjson")
        vlib.write_ndjson(cpath, [r for ch in vlib.split_traces(rows)[:keep] for r in ch])
        _conf(ctx, cpath, tag)
    return None


def _conf(ctx, tpath, tag):
    """Conf mode (internal steps silent): drift only, never a verdict.  Depth-first search for ONE complete
    matching path; TLC reports the state that consumed the whole trace as a violation of NotDone = accepted."""
    try:
        res = vlib.tlc_trace(ctx, "TraceConf_ConsumerSessions", "TraceConf_ConsumerSessions.cfg", tpath,
                             tag=tag + "_conf", timeout=ctx.pick(420, 1800), dfs=True)
    except vlib.Infra as e:
        ctx.notes.append("Conf-mode validation inconclusive (%s)" % str(e)[:160])
        return
    ctx.cov["conf_states"] = ctx.cov.get("conf_states", 0) + res["distinct"]
    if res["violated"] == "invariant:NotDone" and res["reached"] == res["total"]:
        ctx.cov["conf_traces_accepted"] = ctx.cov.get("conf_traces_accepted", 0) + 1
        ctx.cov["conf_events_matched"] = ctx.cov.get("conf_events_matched", 0) + res["total"]
    elif res["violated"] is None:
        ctx.drift.append("Conf mode: the real trace is not a behaviour of ConsumerSessions.tla after line %s of %s (%s); "
                         "the design-level TLC result may no longer transfer" % (res["reached"], res["total"], tag))
    else:
        ctx.notes.append("Conf-mode validation ended with %s (see %s)" % (res["violated"], res["outfile"]))


def _selftest(ctx, tpath):
    """DESIGN 2.7: a corrupted good trace must be rejected (Obs), a trace with a dropped event must not be accepted (Conf)."""
    rows = [r for ch in vlib.split_traces(vlib.read_ndjson(tpath))[:2] for r in ch]
    # (a) one provider object's used CU off by one in the first barrier
    bad = vlib.json.loads(vlib.json.dumps(rows))
    b = next(r for r in bad if r["ev"] == "barrier")
    b["objs"][0]["used"] += 1
    pa = os.path.join(ctx.work, "selftest_a.ndjson")
    vlib.write_ndjson(pa, bad)
    ra = vlib.tlc_trace(ctx, "Trace_ConsumerSessions", "Trace_ConsumerSessions.cfg", pa, tag="selftest_a", timeout=900)
    if ra["violated"] != "invariant:ObsAccounting":
        raise vlib.Infra("self-test: corrupted used CU not rejected by ObsAccounting (%s)" % ra["violated"])
    # (b) the first failing 'end' event dropped: the relay's CU can no longer be explained
    i = next(i for i, r in enumerate(rows) if r["ev"] == "end" and r["kind"] in ("plain", "block", "report", "sync"))
    pb = os.path.join(ctx.work, "selftest_b.ndjson")
    vlib.write_ndjson(pb, rows[:i] + rows[i + 1:])
    rb = vlib.tlc_trace(ctx, "TraceConf_ConsumerSessions", "TraceConf_ConsumerSessions.cfg", pb, tag="selftest_b",
                        timeout=900, dfs=True)
    if rb["violated"] == "invariant:NotDone":
        raise vlib.Infra("self-test: Conf mode accepted a trace with a dropped end event")
    ctx.cov["selftest"] = "corrupted barrier rejected by ObsAccounting; dropped end event rejected by Conf mode at line %s" % rb["reached"]


def _repro(ctx, bad, repeat=12):
    tight = bool((bad["beh"] or {}).get("tight"))
    if tight:
        repeat = 3
    behs = []
    for i in range(repeat):
        b = dict(bad["beh"])
        b["id"] = i
        behs.append(b)
    again = _validate(ctx, behs, "repro", bad["gomaxprocs"], parallel=(1 if tight else 8))
    return again, {"behaviours": behs, "gomaxprocs": bad["gomaxprocs"], "parallel": (1 if tight else 8)}


def _what(v):
    return "real ConsumerSessionManager violates %s at step %d of behaviour seed=%s: event %s ; facts %s" % (
        v["inv"], v["line"], (v["beh"] or {}).get("seed"), vlib.json.dumps(v["event"])[:300], v["chk"][:300])


ACTIONS = ["Start", "Validate", "ReadEpoch", "Select", "SelectBlk", "Acquire", "BlockA", "AddCU", "Done", "DoneInc",
           "Fail1", "Fail2", "Fail3", "Update", "Unblock", "CheckUnblock"]


def _final_cov(out):
    """action -> number of states generated by it, from the LAST coverage dump of a TLC run"""
    seg = out[out.rfind("The coverage statistics at"):]
    d = {}
    for m in re.finditer(r"^<(\w+) line \d+, col \d+ to line \d+, col \d+ of module ConsumerSessions>: (\d+):(\d+)", seg, re.M):
        d[m.group(1)] = d.get(m.group(1), 0) + int(m.group(3))
    return d


def _mc(ctx, cfg, name, timeout, coverage=False):
    mc = vlib.tlc_mc(ctx, "ConsumerSessions", cfg, timeout=timeout, coverage=coverage, tag=os.path.splitext(cfg)[0])
    if mc["violated"]:
        raise vlib.Infra("design-level spec violates %s under %s; spec must be repaired (see %s)" % (mc["violated"], cfg, mc["outfile"]))
    if not mc["exhaustive"]:
        raise vlib.Infra("TLC run %s not exhaustive (see %s)" % (cfg, mc["outfile"]))
    ctx.add_mc(name, mc)
    return mc


def run(ctx):
    if ctx.quick:
        _mc(ctx, "ConsumerSessions_mcq.cfg", "ConsumerSessions exhaustive: 2 providers, 2 relays, 2 calls, 1 pairing update", 900)
    else:
        fired = {}
        for cfg, name, cov in [
                ("ConsumerSessions_mcq.cfg", "2 providers, 2 relays, 2 calls, 1 pairing update (+coverage)", True),
                ("ConsumerSessions_mca.cfg", "addon requests: 2 providers (1 supporting), 2 relays, 3 calls (+coverage)", True),
                ("ConsumerSessions_mc.cfg", "2 providers, 2 relays, 3 calls, 1 pairing update", False),
                ("ConsumerSessions_mc3.cfg", "3 providers, 3 relays, virtual epoch 0..1, addon, 2 pairing lists, 1 update, 2 calls", False)]:
            mc = _mc(ctx, cfg, "ConsumerSessions exhaustive: " + name, 3400, coverage=cov)
            if cov:
                for a, n in _final_cov(mc["out"]).items():
                    fired[a] = fired.get(a, 0) + n
        dead = [a for a in ACTIONS if fired.get(a, 0) == 0]
        ctx.cov["model_action_coverage"] = {a: fired.get(a, 0) for a in ACTIONS}
        if dead:
            raise vlib.Infra("vacuous model: actions never taken in the coverage runs: %s" % dead)

    # design-level sensitivity: splitting the reservation's limit check from the addition must break Bound
    sp = vlib.tlc_mc(ctx, "ConsumerSessions", "ConsumerSessions_split.cfg", timeout=900, tag="split")
    if sp["violated"] != "invariant:Bound":
        raise vlib.Infra("design-level variant SplitReserve=TRUE does not violate Bound (%s, see %s)" % (sp["violated"], sp["outfile"]))
    ctx.cov["design_variant_split_reserve"] = "Bound violated as expected (check-then-act race is visible to the model)"
    ctx.assumptions += [
        "schedules are those the Go runtime produces (GOMAXPROCS sweep, -race in the thorough tier): weaker than exhaustive schedules",
        "races inside one lock-free window of the reservation are only probed probabilistically (tight-budget phase: 3000+ rounds of 16 goroutines competing for the last free CU slot of a provider, GOMAXPROCS=16)",
        "TLC bounded constants (specs/ConsumerSessions_mc*.cfg); real MaximumNumberOfFailuresAllowedPerConsumerSession=15 vs model ConsecLimit",
        "fake provider endpoints are healthy gRPC servers (no connection failures); metrics manager is the no-op one",
        "the blocked-provider rule is decided on sequential relays embedded in the concurrent history (all other relays parked, some holding sessions)",
        "driver reads unexported manager fields by reflection under the manager's own locks; lavasession.MaxSessionsAllowedPerProvider=%d" % MAXSESS,
    ]
    runs = ctx.pick([(1, 10, False), (4, 12, False), (16, 10, False)],
                    [(1, 30, False), (2, 30, False), (4, 40, False), (16, 40, False), (4, 24, True)])
    total = 0
    # the tight-budget phase runs one behaviour at a time under GOMAXPROCS=16 (it needs real parallelism)
    tight = gen_tight(ctx.seed, ctx.pick(1, 3), ctx.pick(3000, 5000))
    jobs = [("normal", k, gmp, n, race) for k, (gmp, n, race) in enumerate(runs)]
    jobs.insert(1, ("tight", len(runs), 16, len(tight), False))
    for mode, k, gmp, n, race in jobs:
        total += n
        if mode == "tight":
            behs, tag = tight, "tight_p%d" % gmp
            bad = _validate(ctx, behs, tag, gmp, parallel=1)
        else:
            behs = gen_behaviours(ctx.seed * 1000 + k, n, deep=DEEP)
            tag = "run%d_p%d%s" % (k, gmp, "_race" if race else "")
            bad = _validate(ctx, behs, tag, gmp, race=race, conf=(k == 0 or (not ctx.quick and k == 2)))
        if bad:
            again, replay_obj = _repro(ctx, bad)
            if again is None or FAMILY.get(again["inv"], again["inv"]) != FAMILY.get(bad["inv"], bad["inv"]):
                raise vlib.Infra("counter-example not reproduced in fresh executions: %s (%s)" % (bad["sig"], _what(bad)))
            ctx.violation(again["sig"], _what(again), replay_obj)
            return
        if k == 0:
            ctx.sample(behs[0])
            if not ctx.quick:
                _selftest(ctx, os.path.join(ctx.work, tag + "_trace.ndjson"))
    ev = ctx.cov.get("events", {})
    ctx.cov["evaluations"] = total
    ctx.cov["distinct_nontrivial"] = ev.get("got", 0)
    ctx.cov["rule"] = ("evaluations = behaviours (seeded parameter vectors run by G goroutines on the real manager); "
                       "distinct_nontrivial = sessions handed out and checked while held (got events); "
                       "events = per-kind counts of the validated trace")
    # non-vacuity
    need = ["got", "end:done", "end:doneinc", "end:plain", "end:block", "end:sync", "barrier:round", "barrier:solo",
            "barrier_with_sessions_in_flight", "barrier_with_blocked_providers", "solo_got_from_blocked",
            "got_reused_session", "updcall"]
    want = ["old_epoch_session_in_flight", "call_addon", "got_ve", "got_with_reported_providers", "barrier_after_reset"]
    soft = [x for x in want if ev.get(x, 0) == 0]
    if soft:
        ctx.notes.append("not exercised in this run: %s" % soft)
    missing = [x for x in need if ev.get(x, 0) == 0]
    if missing or ev.get("got", 0) < 200:
        raise vlib.Infra("vacuous coverage: missing %s, got=%d" % (missing, ev.get("got", 0)))
    want_rounds = sum(b["tight"] for b in tight)
    nb = ev.get("barrier:tight", 0)
    if ev.get("tight_rounds", 0) != want_rounds or nb == 0 or ev.get("tight_barrier_at_limit", 0) < 0.8 * nb:
        raise vlib.Infra("tight-budget phase vacuous: rounds=%s of %s, barriers at the limit %s of %s" % (
            ev.get("tight_rounds", 0), want_rounds, ev.get("tight_barrier_at_limit", 0), nb))


def replay(ctx, path):
    with open(path) as f:
        obj = vlib.json.load(f)
    bad = _validate(ctx, obj["behaviours"], "replay", obj.get("gomaxprocs", 4), parallel=obj.get("parallel", 8))
    if bad:
        ctx.violation(bad["sig"], "replayed behaviour still fails: " + _what(bad), obj)
