"""C24 Reputation pairing scores are bounded and order-preserving.  (DESIGN.md section 4, C24)

M: specs/Reputation.tla exhaustively over an abstract score grid (3 providers, scores, weights, stakes around
   the 10% benchmark threshold, decay factors 1, 1/2, 0): Bounded, OrderStep, ValidStep, PsStep.
G: TLC -simulate emits behaviours (relay payments with QoS excellence report kinds and CU weights, epoch
   advances with time gaps of 20 min / 1 / 10 / 100 half-life factors).
R: harness/t/reputation replays them on the real chain (relay payments -> UpdateReputationEpochQosScore, epoch
   start -> UpdateAllReputationQosScore) and logs GetReputation / GetReputationScore of every provider scaled
   (x10^6) plus the three-way comparisons computed on the real decimals.
V: Trace_Reputation, Obs only: T_Bounded, T_Order, T_Valid, T_Scored, T_PsStep evaluated by TLC on the real states.
"""
import collections
import os
import vlib

LEVEL = "model_checking"
json = vlib.json


def _drive(ctx, behs, tag):
    binp = vlib.go_test_build("reputation")
    bpath = os.path.join(ctx.work, tag + "_behaviours.json")
    tpath = os.path.join(ctx.work, tag + "_trace.ndjson")
    vlib.write_json(bpath, behs)
    vlib.run_test_harness(binp, {"VERIF_IN": bpath, "VERIF_OUT": tpath, "VERIF_SEED": ctx.seed}, timeout=3000)
    return tpath, vlib.read_ndjson(tpath)


def _brief(ev):
    return json.dumps({k: ev.get(k) for k in ("ev", "p", "q", "w", "gap", "upd", "qos", "ps", "valid", "cmp", "pcmp")})[:900]


def _validate(ctx, behs, tag):
    tpath, rows = _drive(ctx, behs, tag)
    if sum(1 for r in rows if r["ev"] == "reset") != len(behs):
        raise vlib.Infra("driver logged a wrong number of resets")
    res = vlib.tlc_trace(ctx, "Trace_Reputation", "Trace_Reputation.cfg", tpath, tag=tag + "_obs")
    if res["accepted"]:
        return None, rows
    kind = res["violated"]
    if kind == "postcondition":
        line = (res["reached"] or 0) + 1
        ev = rows[line - 1] if line - 1 < len(rows) else {}
        if not ev.get("panic"):
            raise vlib.Infra("trace line %d breaks the projection assumptions: %s" % (line, json.dumps(ev)[:300]))
        kind = "panic"
    else:
        line = vlib.violated_line(res) or (res["reached"] or 1)
    bi, chunk, off = vlib.locate_trace(rows, line)
    ev = rows[line - 1] if line - 1 < len(rows) else {}
    sig = "%s@%s" % (kind.split(":")[-1].replace("T_", ""), ev.get("ev"))
    if ev.get("panic"):
        sig = "panic@%s:%s" % (ev.get("ev"), (ev.get("msg") or "")[:40])
    return {"sig": sig, "beh": behs[bi] if 0 <= bi < len(behs) else None, "line": off, "event": ev, "kind": kind}, rows


def _coverage(ctx, behs, rows):
    c = collections.Counter((r["ev"], bool(r["ok"])) for r in rows)
    epochs = [r for r in rows if r["ev"] == "epoch"]
    multi = sum(1 for r in epochs if len(r["upd"]) >= 2)
    strict = sum(1 for r in epochs for p in r["upd"] for q in r["upd"] if r["cmp"][p][q] == -1)
    strict_ps = sum(1 for r in epochs for p in r["upd"] for q in r["upd"] if r["cmp"][p][q] == -1 and r["pcmp"][p][q] == 1)
    mids = sum(1 for r in epochs for p in r["upd"] if r["found"][p] and 500000 < r["ps"][p] < 2000000)
    gaps = collections.Counter(r["gap"] for r in epochs)
    ctx.cov["trace_events"] = len(rows)
    ctx.cov["steps"] = {"%s/%s" % (k[0], "ok" if k[1] else "rej"): v for k, v in sorted(c.items())}
    ctx.cov["epoch_gaps"] = {str(k): v for k, v in sorted(gaps.items())}
    ctx.cov["ordered_pairs_checked"] = strict
    ctx.cov["ordered_pairs_with_strictly_better_pairing_score"] = strict_ps
    ctx.cov["pairing_scores_strictly_between_min_and_max"] = mids
    need = {
        "accepted reports": c[("report", True)] >= 200,
        "epoch starts": c[("epoch", True)] >= 60,
        "epoch starts updating >= 2 providers": multi >= 30,
        "strictly ordered provider pairs": strict >= 100,
        "pairing scores strictly inside (min,max)": mids >= 20,
        "gaps of 1, 10 and 100 half-life factors": all(gaps.get(g, 0) >= 1 for g in (0, 1, 10, 100)),
    }
    missing = [k for k, ok in need.items() if not ok]
    if missing:
        raise vlib.Infra("vacuous replay, not exercised: %s (%s)" % (missing, ctx.cov["steps"]))
    ctx.cov["distinct_nontrivial"] = len({json.dumps(b, sort_keys=True) for b in behs
                                          if sum(1 for o in b["ops"] if o["a"] == "epoch") >= 2})


def run(ctx):
    mc = vlib.tlc_mc(ctx, "Reputation", ctx.pick("Reputation_mcq.cfg", "Reputation_mc.cfg"),
                     timeout=ctx.pick(900, 3000), coverage=not ctx.quick)
    if mc["violated"]:
        raise vlib.Infra("design-level spec violates %s; spec must be repaired (see %s)" % (mc["violated"], mc["outfile"]))
    if not mc["exhaustive"]:
        raise vlib.Infra("TLC run not exhaustive")
    ctx.add_mc("Reputation exhaustive", mc)
    sim = vlib.tlc_sim(ctx, "Reputation", "Reputation_sim.cfg", num=ctx.pick(40, 120), depth=40, timeout=1200)
    behs = sim["behaviours"]
    ctx.cov["evaluations"] = len(behs)
    ctx.cov["rule"] = ("behaviours = TLC -simulate runs of Reputation.tla GenNext (40 steps: relay payments of 4 providers with "
                       "8 QoS excellence report kinds and CU weights 1/10/100, epoch advances with gaps of 20 min, 1, 10, 100 "
                       "half-life factors); non-trivial = at least two epoch starts; distinct by full step list")
    ctx.sample(behs[0]["ops"][:6])
    ctx.assumptions += [
        "TLC bounded constants (specs/Reputation_mc*.cfg): 3 providers, score grid {0,1,3}, weights {1,4}, stakes {1,9}, "
        "decay in {1, 1/2, 0}; exp() and the variance-based truncation are abstracted (any smaller grid value)",
        "real chain: one spec, one consumer (one cluster), 4 providers with stakes 50k..1M, ReputationHalfLifeFactor set to 3600 s "
        "so that gaps of 1 / 10 / 100 half-life factors fit the subscription; QoS excellence reports with availability in (0,1]",
        "decimals are compared by the driver with LegacyDec operators (three-way results logged); scaled values are informational",
        "gaps above ~136 half-life factors overflow NaturalBaseExponentFraction (begin-block panic, see docs/notes/C24.md) and are "
        "outside the generated range",
    ]
    bad, rows = _validate(ctx, behs, "sim")
    if bad:
        again, _ = _validate(ctx, [bad["beh"]], "repro")
        if again is None:
            raise vlib.Infra("counter-example not reproduced: %s" % bad["sig"])
        ctx.violation(again["sig"], "real chain breaks %s at step %d: %s" % (again["kind"], again["line"], _brief(again["event"])),
                      {"behaviours": [bad["beh"]]})
        return
    ctx.cov["traces_validated_against_impl"] += len(behs)
    _coverage(ctx, behs, rows)


def replay(ctx, path):
    with open(path) as f:
        obj = json.load(f)
    bad, _ = _validate(ctx, obj["behaviours"], "replay")
    if bad:
        ctx.violation(bad["sig"], "replayed behaviour still fails %s: %s" % (bad["kind"], _brief(bad["event"])),
                      {"behaviours": [bad["beh"]]})
