"""C30 Chain tracker mirrors the node's canonical chain.  (DESIGN.md section 4, C30)

M: ChainTracker.tla exhaustively (N = 3; node: extend 1..N+1, reorg depth 1..N+1 with 0..N+1 new
   blocks; polls with transient errors, failing hash fetches and stale head numbers) - invariants
   Shape, Mirrors, MirrorsHead, ForkOnlyIfChanged, ForkIfChanged, FailKeeps; ChainTracker_q.cfg:
   GetLatestBlockData answers (QueryOK / QueryLive) for all argument triples on all reachable
   tracker states.
G: TLC -simulate emits behaviours (start, extend, reorg, poll(mode, lag, failAt), query(f, t, s)).
R: harness/cmd/chaintracker replays them into the real ChainTracker (own scripted ChainFetcher, the
   polling goroutine is gated inside FetchLatestBlockNum).
V: TLC validates the recorded trace against Trace_ChainTracker in Conf mode on the observables
   (latest block, stored window, callbacks, GetLatestBlockData answers).  Model equality on those is
   the property, so a rejection is a violation; error classes of queries are a drift-only pass.
"""
import os
import vlib

LEVEL = "model_checking"


def _validate(ctx, behs, tag):
    binp = vlib.go_build("chaintracker")
    bpath = os.path.join(ctx.work, tag + "_behaviours.json")
    tpath = os.path.join(ctx.work, tag + "_trace.ndjson")
    vlib.write_json(bpath, behs)
    vlib.run_harness(binp, [bpath, tpath], timeout=1200)
    rows = vlib.read_ndjson(tpath)
    res = vlib.tlc_trace(ctx, "Trace_ChainTracker", "Trace_ChainTracker.cfg", tpath,
                         env={"VERIF_MATCH_ERRCLASS": "0"}, tag=tag)
    if not res["accepted"]:
        if res["violated"] == "postcondition":
            line = (res["reached"] or 0) + 1
            kind = "conf-reject"
        else:
            line = vlib.violated_line(res) or (res["reached"] or 1)
            kind = res["violated"]
        bi, chunk, off = vlib.locate_trace(rows, line)
        beh = behs[bi] if 0 <= bi < len(behs) else None
        ev = rows[line - 1] if line - 1 < len(rows) else {}
        sig = "%s@%s" % (kind, ev.get("ev"))
        if ev.get("ev") == "poll":
            sig += ":%s" % ev.get("mode")
        if ev.get("panic"):
            sig = "panic@%s" % ev.get("ev")
        return {"sig": sig, "beh": beh, "line": off, "event": ev, "kind": kind}
    res2 = vlib.tlc_trace(ctx, "Trace_ChainTracker", "Trace_ChainTracker.cfg", tpath,
                          env={"VERIF_MATCH_ERRCLASS": "1"}, tag=tag + "_cls")
    if not res2["accepted"]:
        ctx.drift.append("GetLatestBlockData error class differs from the model at trace line %s" % ((res2["reached"] or 0) + 1))
    ctx.cov["traces_validated_against_impl"] += len(behs)
    ctx.cov["trace_events"] = ctx.cov.get("trace_events", 0) + len(rows)
    return None


def _coverage(ctx, behs, rows_hint=None):
    kinds = {}
    for b in behs:
        for s in b:
            k = s["a"]
            if k == "poll":
                k += ":" + s["mode"] + (":lag" if s["d"] else "") + (":fail" if s["k"] else "")
            kinds[k] = kinds.get(k, 0) + 1
    need = ["start", "extend", "reorg", "query", "poll:ok", "poll:err", "poll:neterr", "poll:ok:lag", "poll:ok:fail"]
    missing = [k for k in need if not kinds.get(k)]
    if missing:
        raise vlib.Infra("generator did not exercise action kinds %s" % missing)
    ctx.cov["action_kinds"] = kinds


def _mc(ctx):
    mc = vlib.tlc_mc(ctx, "ChainTracker", ctx.pick("ChainTracker_mcq.cfg", "ChainTracker_mc.cfg"),
                     timeout=ctx.pick(600, 3000), coverage=not ctx.quick)
    if mc["violated"]:
        raise vlib.Infra("design-level spec violates %s; spec must be repaired (see %s)" % (mc["violated"], mc["outfile"]))
    ctx.add_mc("ChainTracker exhaustive", mc)
    if not ctx.quick:
        dead = [a for a in mc.get("zero_actions", []) if a in ("Start", "Extend", "Reorg", "Poll")]
        if dead:
            raise vlib.Infra("vacuous exhaustive run: actions never taken: %s" % dead)
    mq = vlib.tlc_mc(ctx, "ChainTracker", "ChainTracker_q.cfg", timeout=600, tag="ChainTracker_q")
    if mq["violated"]:
        raise vlib.Infra("design-level spec violates %s (GetLatestBlockData transcription) (see %s)" % (mq["violated"], mq["outfile"]))
    ctx.add_mc("ChainTracker GetLatestBlockData answers", mq)


def run(ctx):
    if os.environ.get("VERIF_DEV_SKIP_MC") != "1":   # development knob (mutant runs): the exhaustive runs do not depend on the repo
        _mc(ctx)
    sim = vlib.tlc_sim(ctx, "ChainTracker", "ChainTracker_sim.cfg", num=ctx.pick(250, 1500), depth=15, timeout=900)
    behs = [b for b in sim["behaviours"] if b and b[0]["a"] == "start"]
    _coverage(ctx, behs)
    ctx.cov["evaluations"] = len(behs)
    nontriv = {vlib.json.dumps(b) for b in behs
               if sum(1 for s in b if s["a"] == "poll") >= 2 and any(s["a"] in ("extend", "reorg") for s in b)}
    ctx.cov["distinct_nontrivial"] = len(nontriv)
    if len(nontriv) < ctx.pick(50, 300):
        raise vlib.Infra("too few non-trivial behaviours: %d" % len(nontriv))
    ctx.cov["rule"] = ("behaviours = TLC -simulate runs of ChainTracker.tla GenNext (start + 13 ops over extend/reorg/poll/query); "
                       "non-trivial = at least two polls and one node step; distinct by full action list")
    ctx.sample(behs[0])
    ctx.assumptions += ["N = blocksToSave = 3, serverBlockMemory = 3 (constants of the harness and of specs/*ChainTracker*.cfg)",
                        "the node does not change during one poll (polls are atomic w.r.t. the node)",
                        "the node is a single chain: hashes are fresh ids, a reorg replaces a suffix with fresh hashes",
                        "a poll is complete when the fetcher sees the next FetchLatestBlockNum",
                        "timing behaviour (poll period adaptation, block-gap statistics) is not modelled"]
    bad = _validate(ctx, behs, "sim")
    if bad:
        again = _validate(ctx, [bad["beh"]], "repro")
        if again is None:
            raise vlib.Infra("counter-example not reproduced: %s" % bad["sig"])
        ctx.violation(again["sig"], "real chain tracker deviates from ChainTracker.tla / invariant at step %d: %s" % (
            again["line"], vlib.json.dumps(again["event"])[:600]), {"behaviours": [bad["beh"]]})


def replay(ctx, path):
    with open(path) as f:
        obj = vlib.json.load(f)
    bad = _validate(ctx, obj["behaviours"], "replay")
    if bad:
        ctx.violation(bad["sig"], "replayed behaviour still fails: %s" % vlib.json.dumps(bad["event"])[:600],
                      {"behaviours": [bad["beh"]]})
