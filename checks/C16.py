"""C16 Epoch boundaries are consistent under parameter changes.  (DESIGN.md section 4, C16)

M: Epochs.tla (transcription of FixateParams / PushFixatedParams / BlockInEpoch / GetNextEpoch /
   UpdateEarliestEpochstart / epoch hashes + the param-change proposal handler) exhaustively:
   Total, StartsRan, NextLater, Grid, NoPanic, EarliestIsStart, Mono, Stable, DelOk.
   The spec carries the repair of fixes/F30 (FixWalk = TRUE).
G: TLC -simulate behaviours: initial (EpochBlocks, EpochsToSave), then param-change proposals for
   either parameter at arbitrary blocks (on and off the epoch grid) interleaved with blocks.
R: harness/t/epochs replays them on a real chain (common.Tester through chainx, proposals executed as
   atomic txs) after an unlogged warm-up that moves the genesis parameters out of the memory
   window; after every step the answers of GetEpochStartForBlock / GetNextEpoch / BlocksToSave /
   GetEpochHash for the whole window, EpochDetails, LatestParamChange and the fixation lists.
   Also logged: the queries about the current block - GetCurrentNextEpoch, GetNextEpoch(height),
   IsEpochStart, GetEpochStartForBlock(height), GetPreviousEpochStartForBlock(height).
V: Trace_Epochs in Obs mode: TLC evaluates the C16 properties on the real answers (decides), incl.
   CurNext (announced next epoch > height and = GetNextEpoch), Announced (epoch-start processing runs
   at b iff b was announced at b-1), CurStart.
   Conf mode (row = step of Epochs.tla, all logged fields equal) is reported as drift only.
"""
import os
import re
import vlib

LEVEL = "model_checking"


def _drive(ctx, behs, tag):
    binp = vlib.go_test_build("epochs")
    bpath = os.path.join(ctx.work, tag + "_behaviours.json")
    tpath = os.path.join(ctx.work, tag + "_trace.ndjson")
    vlib.write_json(bpath, behs)
    vlib.run_test_harness(binp, {"VERIF_IN": bpath, "VERIF_OUT": tpath, "VERIF_SEED": ctx.seed})
    rows = vlib.read_ndjson(tpath)
    chunks = vlib.split_traces(rows)
    if len(chunks) != len(behs):
        raise vlib.Infra("driver produced %d traces for %d behaviours" % (len(chunks), len(behs)))
    return tpath, rows, chunks


def _context(name, prev, row):
    """Narrow, seed-independent description of the failing input class."""
    if name == "DelOk" and prev is not None:
        win = {w["b"]: w for w in prev["win"]}
        dropped = [e for e in row["deleted"] if e in win]
        if dropped:
            first = win[dropped[0]]["bts"]
            late = [e for e in dropped if e + win[e]["bts"] >= row["h"]]
            if late and all(win[e]["bts"] > first for e in late):
                return "blocks-to-save-grew-inside-walk"
        return "other"
    if name in ("CurNext", "Announced"):
        # is an EpochBlocks change pending (raw parameter differs from the length of the current epoch)?
        ref = prev if (name == "Announced" and prev is not None) else row
        cur = ref["win"][-1] if ref["win"] else None
        if cur is not None and ref["eb"] != cur["nx"] - cur["es"]:
            return "epochblocks-change-pending"
        return "other"
    if name == "NoPanic":
        return (row.get("panics") or "")[:60]
    return row.get("ev", "")


def _obs(ctx, tpath, rows, tag):
    res = vlib.tlc_trace(ctx, "Trace_Epochs", "Trace_Epochs_TRUE.cfg", tpath, env={"VERIF_MODE": "obs"},
                         tag=tag + "_obs", timeout=1800)
    if not res["accepted"]:
        raise vlib.Infra("Obs-mode trace run failed (%s), see %s" % (res["violated"], res["outfile"]))
    found = []
    for name, line in re.findall(r'<<"VIOL", "(\w+)", (\d+)>>', res["out"]):
        line = int(line)
        row = rows[line - 1]
        prev = rows[line - 2] if line >= 2 and rows[line - 1]["ev"] != "reset" else None
        found.append({"name": name, "line": line, "beh": row["beh"], "sig": "%s@%s" % (name, _context(name, prev, row)),
                      "event": {k: row.get(k) for k in ("ev", "v", "ok", "panic", "panics", "h", "eb", "ets", "lpc",
                                                        "start", "earliest", "deleted", "curnext", "nextcur", "rannow", "step")}})
    return found


def _conf(ctx, tpath, tag):
    notes = []
    for fx in ("TRUE", "FALSE"):
        res = vlib.tlc_trace(ctx, "Trace_Epochs", "Trace_Epochs_%s.cfg" % fx, tpath, env={"VERIF_MODE": "conf"},
                             tag="%s_conf_%s" % (tag, fx), timeout=1800)
        if res["accepted"]:
            return "FixWalk=" + fx, notes
        notes.append("FixWalk=%s rejected at line %s" % (fx, (res["reached"] or 0) + 1))
    return None, notes


def _stats(chunks):
    st = {"rows": 0, "changes_ok": 0, "changes_offgrid": 0, "inc": 0, "dec": 0, "drops": 0, "fix_len2": 0,
          "epoch_starts": 0, "lpc_reset": 0, "max_window": 0}
    for c in chunks:
        for i, r in enumerate(c[1:], 1):
            p = c[i - 1]
            st["rows"] += 1
            if r["ev"] in ("eb", "ets") and r["ok"]:
                st["changes_ok"] += 1
                if r["h"] != r["start"]:
                    st["changes_offgrid"] += 1
                old = p["eb"] if r["ev"] == "eb" else p["ets"]
                st["inc" if r["v"] > old else "dec"] += 1
            if r["deleted"] != p["deleted"]:
                st["drops"] += 1
            if len(r["fixEB"]) >= 2 or len(r["fixETS"]) >= 2:
                st["fix_len2"] += 1
            if r.get("rannow") and r["ev"] == "block":
                st["epoch_starts"] += 1
            if p["lpc"] != 0 and r["lpc"] == 0:
                st["lpc_reset"] += 1
            st["max_window"] = max(st["max_window"], len(r["win"]))
    return st


def _examine(ctx, behs, tag):
    tpath, rows, chunks = _drive(ctx, behs, tag)
    return _obs(ctx, tpath, rows, tag), tpath, rows, chunks


def run(ctx):
    mc = vlib.tlc_mc(ctx, "Epochs", ctx.pick("Epochs_mcq.cfg", "Epochs_mc.cfg"), timeout=ctx.pick(1800, 3600))
    if mc["violated"]:
        raise vlib.Infra("design-level spec (with the F30 repair) violates %s; spec must be repaired (see %s)" % (
            mc["violated"], mc["outfile"]))
    ctx.add_mc("Epochs exhaustive (%s blocks, 2 changes)" % ctx.pick("8", "16"), mc)
    sim = vlib.tlc_sim(ctx, "Epochs", "Epochs_sim.cfg", num=ctx.pick(60, 600), depth=60, timeout=ctx.pick(600, 1800))
    behs = sim["behaviours"]
    ctx.cov["evaluations"] = len(behs)
    ctx.cov["distinct_nontrivial"] = len({vlib.json.dumps(b) for b in behs if sum(1 for s in b if s["a"] in ("eb", "ets")) >= 2})
    ctx.cov["rule"] = ("behaviours = TLC -simulate runs of Epochs.tla GenNext (initial params from {2,3,5}x{1,2,3}, 40 blocks, up to 3 "
                       "single-parameter change proposals at random blocks); non-trivial = at least 2 changes; distinct by full action list")
    ctx.sample(behs[0])
    ctx.assumptions += ["TLC bounded constants (specs/Epochs_mc*.cfg: EpochBlocks in {2,3,5}, EpochsToSave in {1,2,3}, <= 2 changes, "
                        "8/16 blocks exhaustively; 3 changes / 40 blocks in simulation)",
                        "param changes arrive through the gov param-change handler (one parameter per proposal)",
                        "each replay starts after a warm-up that moved the genesis parameters (20 x 10) out of the memory window",
                        "EpochsToSave >= 1 (the parameter has no validation in lava; 0 is not explored)"]
    found, tpath, rows, chunks = _examine(ctx, behs, "main")
    bad_behs = {f["beh"] for f in found}
    ctx.cov["traces_validated_against_impl"] += len(behs) - len(bad_behs)
    st = _stats(chunks)
    ctx.cov["trace_stats"] = st
    ctx.cov["trace_events"] = st["rows"]
    if st["changes_ok"] < 20 or st["changes_offgrid"] < 5 or st["inc"] < 5 or st["dec"] < 5 or st["drops"] < 20 \
            or st["fix_len2"] < 20 or st["epoch_starts"] < 100 or st["lpc_reset"] < 3:
        raise vlib.Infra("vacuous coverage: %s" % vlib.json.dumps(st))
    # Conf mode is drift-only: the quick tier validates the first 15 behaviours, the thorough tier all
    cpath = tpath
    if ctx.quick:
        cpath = os.path.join(ctx.work, "main_conf_trace.ndjson")
        vlib.write_ndjson(cpath, [r for c in chunks[:15] for r in c])
    which, notes = _conf(ctx, cpath, "main")
    if which is None:
        ctx.drift.append("real chain is not a refinement of Epochs.tla any more: " + "; ".join(notes))
    else:
        ctx.notes.append("Conf mode: real traces are behaviours of Epochs.tla with " + which)
    by_sig = {}
    for f in found:
        cur = by_sig.get(f["sig"])
        if cur is None or len(behs[f["beh"]]) < len(behs[cur["beh"]]):
            by_sig[f["sig"]] = f
    for n, (sig, f) in enumerate(sorted(by_sig.items())):
        beh = behs[f["beh"]]
        again, _, _, _ = _examine(ctx, [beh], "repro%d" % n)
        g = [x for x in again if x["sig"] == sig]
        if not g:
            raise vlib.Infra("counter-example not reproduced: %s" % sig)
        ctx.violation(sig, "C16 property %s fails on the real chain at step %s: %s" % (
            f["name"], g[0]["event"].get("step"), vlib.json.dumps(g[0]["event"])[:500]), {"behaviours": [beh], "seed": ctx.seed})


def replay(ctx, path):
    with open(path) as f:
        obj = vlib.json.load(f)
    found, _, _, _ = _examine(ctx, obj["behaviours"], "replay")
    ctx.cov["traces_validated_against_impl"] += len(obj["behaviours"]) - len({f["beh"] for f in found})
    seen = set()
    for f in found:
        if f["sig"] in seen:
            continue
        seen.add(f["sig"])
        ctx.violation(f["sig"], "replayed behaviour still fails %s: %s" % (f["name"], vlib.json.dumps(f["event"])[:500]),
                      {"behaviours": [obj["behaviours"][f["beh"]]], "seed": ctx.seed})
