"""C20 Conflict votes follow commit-reveal and stake majority.  (DESIGN.md section 4, C20)

M: specs/Conflict.tla exhaustively (3 voters x {valid, duplicate, late, copied hash, empty hash, forged
   nonce/option, non-voter} x block / epoch advances x stake vectors with ties) - action property C20Prop
   (phase steps, birth, entry steps, accepted / rejected messages, outcome) + invariants TypeOK, Coherent.
G: TLC -simulate emits behaviours (detect / commit / reveal / tick with parameters, stake vector).
R: harness/t/conflict replays them on the real chain (x/conflict msg servers + begin-block through
   testutil/common.Tester, atomic txs); one line per step: step, result class, every open ConflictVote
   record, counted stake, resolution events.
V: TLC validates the recorded trace against Trace_Conflict:
   Obs mode decides (the C20 action properties are evaluated on the real states and steps);
   Conf mode (real step == spec action incl. error class) is drift only.
"""
import collections
import os
import vlib

LEVEL = "model_checking"
json = vlib.json
TRACE_PROPS = ["T_PhaseStep", "T_Birth", "T_EntryStep", "T_Accepted", "T_Rejected", "T_Outcome"]


def _drive(ctx, behs, tag):
    binp = vlib.go_test_build("conflict")
    bpath = os.path.join(ctx.work, tag + "_behaviours.json")
    tpath = os.path.join(ctx.work, tag + "_trace.ndjson")
    vlib.write_json(bpath, behs)
    vlib.run_test_harness(binp, {"VERIF_IN": bpath, "VERIF_OUT": tpath, "VERIF_SEED": ctx.seed}, timeout=3000)
    return tpath, vlib.read_ndjson(tpath)


def _signature(kind, ev):
    if ev.get("panic"):
        return "panic@%s" % ev.get("ev")
    k = kind.split(":")[-1]
    s = "%s@%s" % (k, ev.get("ev"))
    if ev.get("ev") in ("commit", "reveal", "detect"):
        s += ":" + ("ok" if ev.get("ok") else "rejected")
    return s


def _validate(ctx, behs, tag, conf_pass=True):
    """Returns (None, rows) if every Obs property held, else (dict describing the failing behaviour, rows)."""
    tpath, rows = _drive(ctx, behs, tag)
    if sum(1 for r in rows if r["ev"] == "reset") != len(behs):
        raise vlib.Infra("driver logged %d resets for %d behaviours" % (
            sum(1 for r in rows if r["ev"] == "reset"), len(behs)))
    for r in rows:
        if r.get("err") in ("other", "basic"):
            raise vlib.Infra("driver met an unclassified error: %s" % json.dumps(r)[:400])
    res = vlib.tlc_trace(ctx, "Trace_Conflict", "Trace_Conflict.cfg", tpath, env={"VERIF_CONF": "0"}, tag=tag + "_obs")
    if not res["accepted"]:
        kind = res["violated"]
        if kind == "postcondition":
            # Obs mode never rejects a line unless the projection assumptions (Sane) fail
            line = (res["reached"] or 0) + 1
            ev = rows[line - 1] if line - 1 < len(rows) else {}
            if ev.get("panic"):
                kind = "panic"
            else:
                raise vlib.Infra("trace line %d breaks the projection assumptions (epoch alignment / params): %s" % (
                    line, json.dumps(ev)[:300]))
        else:
            line = vlib.violated_line(res) or (res["reached"] or 1)
        bi, chunk, off = vlib.locate_trace(rows, line)
        ev = rows[line - 1] if line - 1 < len(rows) else {}
        return {"sig": _signature(kind, ev), "beh": behs[bi] if 0 <= bi < len(behs) else None, "line": off,
                "event": ev, "kind": kind, "prev": rows[line - 2] if line >= 2 else {}}, rows
    if conf_pass:
        res2 = vlib.tlc_trace(ctx, "Trace_Conflict", "Trace_Conflict.cfg", tpath, env={"VERIF_CONF": "1"}, tag=tag + "_conf")
        if not res2["accepted"]:
            line = (res2["reached"] or 0) + 1
            ev = rows[line - 1] if line - 1 < len(rows) else {}
            ctx.drift.append("Conf: real step is not the Conflict.tla action at trace line %d: %s" % (
                line, json.dumps({k: ev.get(k) for k in ("ev", "who", "pair", "es", "n", "opt", "as", "k", "ok", "err", "height")})))
        else:
            ctx.cov["conf_lines_accepted"] = ctx.cov.get("conf_lines_accepted", 0) + len(rows)
    return None, rows


def _coverage(ctx, behs, rows):
    c = collections.Counter((r["ev"], bool(r["ok"]), r["err"]) for r in rows)
    kinds = collections.Counter((e["kind"], e["winner"]) for r in rows for e in r["out"])
    ctx.cov["trace_events"] = len(rows)
    ctx.cov["steps"] = {"%s/%s%s" % (k[0], "ok" if k[1] else "rej", (":" + k[2]) if k[2] else ""): v for k, v in sorted(c.items())}
    ctx.cov["resolutions"] = {"%s/%s" % k: v for k, v in sorted(kinds.items())}
    need = {
        "accepted detections": c[("detect", True, "")] >= 10,
        "accepted commits": c[("commit", True, "")] >= 20,
        "accepted reveals": c[("reveal", True, "")] >= 10,
        "commit rejected: wrong phase": c[("commit", False, "state")] >= 1,
        "commit rejected: duplicate": c[("commit", False, "dup")] >= 1,
        "commit rejected: not a voter": c[("commit", False, "notvoter")] >= 1,
        "reveal rejected: wrong phase": c[("reveal", False, "state")] >= 1,
        "reveal rejected: hash mismatch": c[("reveal", False, "mismatch")] >= 1,
        "late / unknown vote id": c[("commit", False, "noid")] + c[("reveal", False, "noid")] >= 1,
        "resolved vote": sum(v for k, v in kinds.items() if k[0] == "resolved") >= 2,
        "unresolved vote": kinds[("unresolved", "")] >= 2,
        "epoch ticks": c[("tick", True, "")] >= 50,
    }
    missing = [k for k, ok in need.items() if not ok]
    if missing:
        raise vlib.Infra("vacuous replay, not exercised: %s (steps %s)" % (missing, ctx.cov["steps"]))
    nontriv = set()
    for b in behs:
        acts = {o["a"] for o in b["ops"]}
        if {"detect", "commit", "tick"} <= acts:
            nontriv.add(json.dumps(b, sort_keys=True))
    ctx.cov["distinct_nontrivial"] = len(nontriv)


def run(ctx):
    # Conflict_mc2.cfg (two concurrent votes) exceeds the tier budget (> 25M transitions); run it by hand
    cfgs = ctx.pick(["Conflict_mcq.cfg"], ["Conflict_mc.cfg"])
    for cfg in cfgs:
        mc = vlib.tlc_mc(ctx, "Conflict", cfg, timeout=ctx.pick(900, 3000), coverage=not ctx.quick)
        if mc["violated"]:
            raise vlib.Infra("design-level spec violates %s; spec must be repaired (see %s)" % (mc["violated"], mc["outfile"]))
        if not mc["exhaustive"]:
            raise vlib.Infra("TLC run %s not exhaustive" % cfg)
        if mc.get("zero_actions"):
            raise vlib.Infra("vacuous: spec actions never taken in %s: %s" % (cfg, mc["zero_actions"]))
        ctx.add_mc("Conflict exhaustive " + cfg, mc)
    depth = 36
    sim = vlib.tlc_sim(ctx, "Conflict", "Conflict_sim.cfg", num=ctx.pick(110, 250), depth=depth, timeout=1200)
    behs = sim["behaviours"]
    ctx.cov["evaluations"] = len(behs)
    ctx.cov["rule"] = ("behaviours = TLC -simulate runs of Conflict.tla GenNext (36 steps over detect / commit / reveal / "
                       "tick with message age, sender, vote id, nonce, option, hash owner; 7 stake vectors); "
                       "non-trivial = contains a detection, a commit and a tick; distinct by full step list + stakes")
    ctx.sample({"stake": behs[0]["stake"], "ops": behs[0]["ops"][:6]})
    ctx.assumptions += [
        "TLC bounded constants (specs/Conflict_mc*.cfg): 3 voters (2 in the two-vote config), EB=2, VP=1, SPAN=2",
        "commit hash abstracted as the tuple (nonce, option, address) - sha256 assumed injective; the driver maps stored "
        "hash bytes back through the table of hashes it produced with the repository's CommitVoteData",
        "stake counted for a vote is read by the driver from the epoch snapshot of the vote's start block before the "
        "closing block (snapshots are immutable while kept: EpochsToSave=10 > vote life time)",
        "epoch parameters do not change while a vote is open; chain defaults EpochBlocks=20, VotePeriod=2, VoteStartSpan=3",
        "pairing SlashEntry/JailEntry are no-ops in this tree: the reward part of HandleAndCloseVote is not modelled",
        "one consumer, two conflicting providers (both orders), response conflicts only (finalization conflicts open no vote)",
    ]
    bad, rows = _validate(ctx, behs, "sim")
    if bad:
        again, _ = _validate(ctx, [bad["beh"]], "repro", conf_pass=False)
        if again is None:
            raise vlib.Infra("counter-example not reproduced: %s" % bad["sig"])
        ctx.violation(again["sig"],
                      "real conflict vote breaks %s at step %d: %s (state before: %s)" % (
                          again["kind"], again["line"], json.dumps(again["event"])[:500], json.dumps(again["prev"].get("votes"))[:400]),
                      {"behaviours": [bad["beh"]]})
        return
    ctx.cov["traces_validated_against_impl"] += len(behs)
    _coverage(ctx, behs, rows)


def replay(ctx, path):
    with open(path) as f:
        obj = json.load(f)
    bad, _ = _validate(ctx, obj["behaviours"], "replay", conf_pass=False)
    if bad:
        ctx.violation(bad["sig"], "replayed behaviour still fails %s: %s" % (bad["kind"], json.dumps(bad["event"])[:400]),
                      {"behaviours": [bad["beh"]]})
