"""C01 Chain state transitions and pairing are deterministic.  (DESIGN.md section 4, C01)

M: Pairing.tla, UnionInit (plan + two project policies, one requirement each), UnionMode = "any": every place where
   the code iterates a Go map is an explicit choice; invariant OrderIndependent (what SetupScores hands to
   PickProviders is the same for every choice).  A violation here is only a candidate: it says the order of
   lavaslices.UnionByFunc leaks into AddonFilter.InitFilter's first-writer-wins sub filters.  With
   UnionMode = "firstseen" (the repaired UnionByFunc) the invariant holds.  Likewise SubInit with SubOrder = "any": the
   order in which AddonFilter.InitFilter returns its sub mix filters (a Go map, keys sorted by the code) decides which
   pairing slot each sub filter restricts; with "sorted" the invariant holds.
G: TLC emits configurations (GenInit, Mode = "genunion": every second one has two project policies whose
   requirements share add-on "a" but differ in API interface, >= 4 slots; the others have one mixed requirement with
   2-3 sub-filter keys (add-on + extensions e,f), providers that differ in which of them they support, all eligible,
   3-4 slots for 5 providers).
R: harness/t/pairing replays each configuration in R = 3 fresh processes; in each process GetPairing, VerifyPairing and
   EffectivePolicy are called K times on the same context (throw-away branches), one relay payment per provider is
   submitted per epoch (accepted iff the code finds the provider in the pairing) and every KV store is hashed after
   every block.
V: Trace_Pairing (Obs): DetLists / DetVerify / DetHash / DetEff - all K x R answers equal, all R store digests equal.
"""
import json
import os
import vlib

LEVEL = "model_checking"
R = 3

_c02 = None


def lib():
    global _c02
    if _c02 is None:
        import importlib.util
        p = os.path.join(os.path.dirname(os.path.abspath(__file__)), "C02.py")
        spec = importlib.util.spec_from_file_location("check_C02_lib", p)
        _c02 = importlib.util.module_from_spec(spec)
        spec.loader.exec_module(_c02)
    return _c02


def _uniq(xs):
    seen, res = set(), []
    for x in xs:
        k = json.dumps(x, sort_keys=True)
        if k not in seen:
            seen.add(k)
            res.append(x)
    return res


def _runs(ctx, cfgs, tag, K):
    """R fresh processes on the same input; rows merged line by line (plumbing only: the answers of all processes are
    put side by side, TLC judges equality)."""
    L = lib()
    allrows = []
    for i in range(R):
        _, rows = L.drive(ctx, cfgs, "%s_p%d" % (tag, i), env={"VERIF_K": K, "VERIF_PAY": 1, "VERIF_BATCH": 20})
        allrows.append(rows)
    n = len(allrows[0])
    if any(len(r) != n for r in allrows) or any([x["ev"] for x in r] != [x["ev"] for x in allrows[0]] for r in allrows):
        raise vlib.Infra("processes produced traces of different shape")
    merged = []
    for j in range(n):
        base = dict(allrows[0][j])
        if base["ev"] == "q":
            base["lists"] = _uniq([l for r in allrows for l in r[j]["lists"]])
            base["vers"] = _uniq([l for r in allrows for l in r[j]["vers"]])
            base["effs"] = _uniq([l for r in allrows for l in r[j]["effs"]])
        elif base["ev"] == "blk":
            base["digs"] = [("%s|acc=%s" % (r[j]["dig"], r[j]["acc"])) for r in allrows]
        merged.append(base)
    tpath = os.path.join(ctx.work, tag + "_merged.ndjson")
    vlib.write_ndjson(tpath, merged)
    return tpath, merged


WHERE = {"DetLists": "GetPairing", "DetVerify": "VerifyPairing", "DetHash": "StoreHash", "DetEff": "EffectivePolicy"}


def _judge(ctx, cfgs, tag, K):
    L = lib()
    tpath, rows = _runs(ctx, cfgs, tag, K)
    bads = []
    bad = L.validate(ctx, tpath, "Trace_Pairing_c01.cfg", tag + "_det")
    if bad:
        bads.append(bad)
    return rows, bads


def _culprit(rows, cfgs, line):
    """Configuration(s) behind a violating line: a query line names its configuration; a block line belongs to the batch."""
    r = rows[line - 1]
    if r["ev"] == "q" or (r["ev"] == "blk" and r["cfg"] >= 0):
        return [c for c in cfgs if c["id"] == r["cfg"]], r
    # chain-wide digest: the configurations of the same batch whose payment lines differ, else the whole batch
    j = line - 2
    ids = []
    while j >= 0 and rows[j]["ev"] == "blk" and rows[j]["cfg"] >= 0:
        if len(set(rows[j]["digs"])) > 1:
            ids.append(rows[j]["cfg"])
        j -= 1
    return [c for c in cfgs if c["id"] in ids], r


def _sig(L, rows, bad):
    r = rows[bad["line"] - 1]
    cls = L.features(r) if r["ev"] == "q" else "block"
    return "nondet@%s:%s" % (WHERE.get(bad["inv"], bad["inv"]), cls)


def run(ctx):
    L = lib()
    K = ctx.pick(16, 40)
    skip_mc = bool(os.environ.get("VERIF_SKIP_MC"))  # selftest knob: mutant runs only exercise the binding
    if skip_mc:
        ctx.notes.append("VERIF_SKIP_MC set: exhaustive TLC stage skipped (not a verdict-grade run)")
    else:
        # faithful models (the code as it is now: first-seen union order, sorted sub-filter keys) must be order independent
        for name, cfg in (("UnionInit, first-seen union order", "Pairing_umcfs.cfg"), ("SubInit, sorted sub-filter keys", "Pairing_smcs.cfg")):
            mf = vlib.tlc_mc(ctx, "Pairing", cfg, timeout=1800, tag="mc_" + cfg[:-4])
            if mf["violated"]:
                raise vlib.Infra("design-level spec (%s) violates %s (see %s)" % (name, mf["violated"], mf["outfile"]))
            ctx.add_mc("Pairing %s: OrderIndependent + C02 invariants" % name, mf)
        if not ctx.quick:
            # hazard models: why those two orders must be deterministic (candidates only, never a verdict)
            for name, cfg in (("UnionByFunc in any order", "Pairing_umc.cfg"), ("InitFilter sub filters in any order", "Pairing_smc.cfg")):
                mu = vlib.tlc_mc(ctx, "Pairing", cfg, timeout=1800, tag="mc_" + cfg[:-4])
                if mu["violated"] not in (None, "invariant:OrderIndependent"):
                    raise vlib.Infra("design-level spec violates %s (see %s)" % (mu["violated"], mu["outfile"]))
                ctx.notes.append("design level, %s: OrderIndependent %s" % (name, "is violated (the order leaks into the slot filters)"
                                                                            if mu["violated"] else "holds"))
    cfgs = L.gen_configs(ctx, ctx.pick("Pairing_genu.cfg", "Pairing_genut.cfg"), "genu")
    rows, bads = _judge(ctx, cfgs, "sim", K)
    qs = [r for r in rows if r["ev"] == "q"]
    union_q = [r for r in qs if sum(1 for p in r["pol"] if p["on"] and p["reqs"]) >= 2]
    # queries in which the order of the add-on filter's sub mix filters can matter: a mixed requirement with >= 2 sub
    # filter keys, more eligible providers than slots, >= 3 slots
    def _keys(r):
        ks = set()
        for q in r["eff"]["reqs"]:
            if q["mx"] and q["ext"]:
                ks.add(q["ad"])
                ks.update(q["ext"])
        return ks
    subkey_q = [r for r in qs if not r["err"] and len(_keys(r)) >= 2 and r["eff"]["max"] >= 3
                and sum(1 for t in r["tab"] if t["ok"]) > len(r["list"]) > 0]
    acc = sum(int(d.split("acc=")[1]) for r in rows if r["ev"] == "blk" and r["cfg"] >= 0 for d in r["digs"][:1])
    blocks = sum(1 for r in rows if r["ev"] == "blk" and r["cfg"] < 0)
    ctx.cov["evaluations"] = len(qs) * K * R
    ctx.cov["distinct_nontrivial"] = len({json.dumps([r["tab"], r["pol"]], sort_keys=True) for r in union_q})
    ctx.cov["rule"] = ("one evaluation = one repetition of GetPairing + VerifyPairing(all providers) + EffectivePolicy on the same "
                       "context (K per process, R processes); non-trivial = configuration in which at least two policies carry "
                       "chain requirements (a union is computed); distinct by (stake table, policies)")
    ctx.cov["c01"] = {"configs": len(cfgs), "queries": len(qs), "union_queries": len(union_q), "multi_key_mix_queries_with_picks": len(subkey_q), "K": K, "R": R,
                      "relay_payments_accepted": acc, "blocks_hashed": blocks}
    ctx.sample(cfgs[min(1, len(cfgs) - 1)])
    ctx.assumptions += L.ASSUMPTIONS + [
        "Go re-randomises map iteration order per range statement, so K x R repetitions sample independent orders",
        "goroutine scheduling plays no role: the chain-side code under test is sequential"]
    if len(union_q) < ctx.pick(20, 100) or len(subkey_q) < ctx.pick(20, 100) or acc < 10 or blocks < 3:
        raise vlib.Infra("vacuous coverage: %s" % ctx.cov["c01"])
    if not bads:
        ctx.cov["traces_validated_against_impl"] += len(cfgs) * R
        ctx.cov["trace_events"] = len(rows)
        return
    for bad in bads:
        cands, r = _culprit(rows, cfgs, bad["line"])
        if not cands:
            raise vlib.Infra("no configuration found behind violating line %d" % bad["line"])
        # re-execute in fresh processes on the suspected configuration(s) only
        rows2, bads2 = _judge(ctx, cands, "repro_" + bad["inv"], 40)
        same = [b for b in bads2 if b["inv"] == bad["inv"]] or bads2
        if not same:
            raise vlib.Infra("counter-example not reproduced: %s on configurations %s" % (bad["inv"], [c["id"] for c in cands]))
        b2 = same[0]
        r2 = rows2[b2["line"] - 1]
        what = "same state, different answers of %s: " % WHERE.get(b2["inv"], b2["inv"])
        if r2["ev"] == "q":
            what += "cfg=%s epoch#%s lists=%s verify=%s effective-requirement-orders=%d" % (
                r2["cfg"], r2["k"], r2["lists"], r2["vers"], len(r2["effs"]))
        else:
            what += "store digests / accepted relay payments differ between processes at height %s: %s" % (
                r2["h"], [d[-40:] for d in r2["digs"]])
        ctx.violation(_sig(L, rows2, b2), what, {"configs": cands})


def replay(ctx, path):
    L = lib()
    with open(path) as f:
        obj = json.load(f)
    rows, bads = _judge(ctx, obj["configs"], "replay", 40)
    for b in bads:
        ctx.violation(_sig(L, rows, b), "replayed configuration is still nondeterministic (%s)" % b["inv"], {"configs": obj["configs"]})
