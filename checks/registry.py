"""Registry of claimed properties -> MANIFEST.json (bin/mkmanifest).
One checks/meta/<id>.json per property whose check is built, sound and green on the unchanged tree:
  {"level": "...", "text": "...", "note": "...", "technique": "...", "design_ref": "..."}
checks/meta/<id>.na.json = {"reason": "..."} marks a property as genuinely not applicable."""
import json
import os

HERE = os.path.dirname(os.path.abspath(__file__))
CLAIMED = {}
NOT_APPLICABLE = {}
for n in sorted(os.listdir(os.path.join(HERE, "meta"))):
    p = os.path.join(HERE, "meta", n)
    if n.endswith(".na.json"):
        NOT_APPLICABLE[n[:-8]] = json.load(open(p))["reason"]
    elif n.endswith(".json"):
        CLAIMED[n[:-5]] = json.load(open(p))

NOT_BUILT_REASON = "check not built yet (work in progress; see DESIGN.md §7 order of work)"
