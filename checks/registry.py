"""Registry of claimed properties -> MANIFEST.json (bin/mkmanifest). One entry per property whose
check is built, sound and green on the unchanged tree."""

CLAIMED = {
    "C15": dict(
        level="model_checking",
        text="TimerStore.tla (both timer kinds, callbacks that add/delete timers, lazy next-timeout cache) is checked "
             "exhaustively by TLC for the exactly-once / not-late / ordered / overwrite invariants; TLC-simulated "
             "behaviours are replayed into the real x/timerstore and the recorded traces are validated by TLC against "
             "the spec (model equality on pending timers, fired log and has-answers, invariants evaluated on every real state).",
        note="bounded constants (2 keys + callback key, expiries <= 6, 10 ops per behaviour); four callback programs; "
             "in-memory IAVL store; TLC and the Go toolchain are trusted.",
        technique="TLA+ spec + TLC exhaustive + TLC-generated behaviours replayed into real code + TLC trace validation",
        design_ref="DESIGN.md §4 C15",
    ),
}

NOT_BUILT_REASON = "check not built yet (work in progress in this session; see DESIGN.md §7 order of work)"
NOT_APPLICABLE = {}
