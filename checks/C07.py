"""C07 Provider stake entries and metadata stay consistent.  (DESIGN.md section 4, C07)

M: specs/Dualstaking.tla (StakeNewEntry new/modify, MoveProviderStake, UnstakeEntry by vault / by provider,
   DelegateFull, UnbondFull, Redelegate, AfterDelegationModified, UnbondUniformProviders, the staking hooks)
   exhaustively: every C07 clause holds for the design (Fixed = TRUE = the code with fixes F6, F6b, F6c;
   Dualstaking_asis_mcq.cfg documents that the code before the fixes violated three clauses).
G: TLC -simulate histories (2 providers x 3 chains, 2 delegators, 2 validators, 14 operations incl.
   validator-side operations, slashes and unstake by provider address).
R: harness/t/dualstaking replays them through the real message servers, one fresh chain per history.
V: Trace_Dualstaking (Obs): the C07 invariants are evaluated by TLC on every real state; signature =
   <clause>@<operation>.  The spec's prediction of every step is compared too (drift only).
"""
import os
import re
import vlib

LEVEL = "model_checking"
CLAUSES = ("MetaChains", "SelfStake", "TotalDelegations", "DelegateTotals", "FrozenBelowMin")
# spec.MinStakeProvider per chain; must agree with MinSpec / MinSpecHigh / HighChains in specs/*Dualstaking*.cfg
MINSPEC = {"c1": 1000, "c2": 2000, "c3": 1000}
PERSISTENT = ("MetaChains", "SelfStake", "TotalDelegations", "Mirror", "NonNegative")
_LINE = re.compile(r'^<<"(VIOL|DRIFT)", (\d+), "([^"]+)">>$', re.M)


def drive_and_validate(ctx, behs, tag, clauses, seeds=None):
    """seeds: world seed per behaviour (accounts / address orders depend on it, so a reproduction must reuse it)."""
    if seeds is None:
        seeds = [ctx.seed * 100003 + i for i in range(len(behs))]
    binp = getattr(ctx, "_ds_bin", None)
    if binp is None:
        binp = ctx._ds_bin = vlib.go_test_build("dualstaking")
    bpath = os.path.join(ctx.work, tag + "_behaviours.json")
    tpath = os.path.join(ctx.work, tag + "_trace.ndjson")
    vlib.write_json(bpath, {"behs": behs, "seeds": seeds, "minspec": MINSPEC})
    vlib.run_test_harness(binp, {"VERIF_IN": bpath, "VERIF_OUT": tpath, "VERIF_SEED": ctx.seed}, timeout=3000)
    rows = vlib.read_ndjson(tpath)
    if sum(1 for r in rows if r["ev"] == "reset") != len(behs):
        raise vlib.Infra("dualstaking driver wrote a wrong number of behaviours")
    res = vlib.tlc_trace(ctx, "Trace_Dualstaking", "Trace_Dualstaking.cfg", tpath, tag=tag, timeout=2400)
    if not res["accepted"]:
        raise vlib.Infra("Obs-mode trace validation did not run to the end: %s (see %s)" % (res["violated"], res["outfile"]))
    findings, drift, seen = [], [], set()
    for m in _LINE.finditer(res["out"]):
        kind, ln, name = m.group(1), int(m.group(2)), m.group(3)
        bi, chunk, off = vlib.locate_trace(rows, ln)
        ev = rows[ln - 1]
        if kind == "DRIFT":
            drift.append((bi, off, name))
            continue
        if name not in clauses:
            continue
        if name in PERSISTENT:
            if (bi, name) in seen:
                continue
            seen.add((bi, name))
        findings.append({"sig": "%s@%s" % (name, ev["ev"]), "beh": behs[bi][:off - 1], "line": off, "event": ev,
                         "wseed": seeds[bi]})
    stats = {"events": len(rows), "ok_ops": {}, "failed_ops": {}, "multi_unstakeP": 0, "drift": drift}
    # per-chain minimum: states where an entry on the high-minimum chain c2 of a multi-chain provider whose FIRST
    # chain has the low minimum lies between the two minima (it must be frozen), and the mirror situation
    stats["between_minima_high_chain_not_first"] = 0
    stats["between_minima_low_chain_behind_high_first"] = 0
    lo, hi = min(MINSPEC.values()), max(MINSPEC.values())
    for r in rows:
        for p, ents in r["e"].items():
            ch = r["m"][p]["chains"]
            if len(ch) < 2:
                continue
            for c, x in ents.items():
                if x["on"] and lo <= x["stake"] + x["dt"] < hi:
                    if MINSPEC[c] == hi and MINSPEC[ch[0]] == lo:
                        stats["between_minima_high_chain_not_first"] += 1
                    elif MINSPEC[c] == lo and MINSPEC[ch[0]] == hi:
                        stats["between_minima_low_chain_behind_high_first"] += 1
    prev = None
    for r in rows:
        if r["ev"] != "reset":
            k = "ok_ops" if r["ok"] else "failed_ops"
            stats[k][r["ev"]] = stats[k].get(r["ev"], 0) + 1
            if r["ev"] == "unstakeP" and r["ok"] and prev is not None and len(prev["m"][r["a"]["p"]]["chains"]) > 1 \
                    and prev["m"][r["a"]["p"]]["total"] > 0:
                stats["multi_unstakeP"] += 1
        prev = r
    return findings, stats


def what(f):
    ev = f["event"]
    a = {k: v for k, v in ev["a"].items() if v not in ("", 0)}
    p = ev["a"].get("p") or "p1"
    ent = {c: (x["stake"], x["dt"], x["frozen"]) for c, x in ev["e"].get(p, {}).items() if x["on"]}
    return ("%s after %s: entries of %s (stake, delegateTotal, frozen) = %s, metadata = %s, delegations = %s" % (
        f["sig"], vlib.json.dumps(a, sort_keys=True), p, ent, vlib.json.dumps(ev["m"].get(p), sort_keys=True),
        vlib.json.dumps({w: x for w, x in ev["dg"].get(p, {}).items() if x}, sort_keys=True)))


def confirm(ctx, findings, clauses):
    by_sig = {}
    for f in findings:
        cur = by_sig.get(f["sig"])
        if cur is None or len(f["beh"]) < len(cur["beh"]):
            by_sig[f["sig"]] = f
    for i, (sig, f) in enumerate(sorted(by_sig.items())):
        again, _ = drive_and_validate(ctx, [f["beh"]], "repro%d" % i, clauses, seeds=[f["wseed"]])
        same = [g for g in again if g["sig"] == sig]
        if not same:
            raise vlib.Infra("counter-example not reproduced: %s" % sig)
        ctx.violation(sig, what(same[0]), {"behaviours": [f["beh"]], "seeds": [f["wseed"]]})


def generate(ctx, keep_slash=False):
    sim = vlib.tlc_sim(ctx, "Dualstaking", "Dualstaking_sim.cfg", num=ctx.pick(120, 1500), depth=17, timeout=1800)
    behs = sim["behaviours"]
    if not keep_slash:
        # C07 quantifies over stake / modify / move / unstake / delegate / redelegate / unbond histories
        behs = [[s for s in b if s["op"] not in ("slash", "cancelunbond")] for b in behs]
    return behs


def run(ctx):
    mc = vlib.tlc_mc(ctx, "Dualstaking", ctx.pick("Dualstaking_mcq.cfg", "Dualstaking_mc.cfg"), timeout=ctx.pick(900, 5400))
    if mc["violated"]:
        raise vlib.Infra("design-level spec violates %s; spec must be repaired (see %s)" % (mc["violated"], mc["outfile"]))
    ctx.add_mc("Dualstaking exhaustive (all C07 clauses + mirror)", mc)
    behs = generate(ctx)
    ctx.cov["evaluations"] = len(behs)
    ctx.cov["distinct_nontrivial"] = len({vlib.json.dumps(b) for b in behs
                                          if sum(1 for s in b if s["op"] == "stake") >= 2 and any(s["op"].startswith("ds") for s in b)})
    ctx.cov["rule"] = ("behaviour = 16 operations drawn by TLC -simulate from Dualstaking.tla GenNext (stake/modify, move, unstake by "
                       "vault, unstake by provider, ds delegate/unbond/redelegate, validator delegate/undelegate/redelegate, cancel-"
                       "unbond, slash, next-day); non-trivial = at least two stake operations and one dualstaking tx; distinct by "
                       "full operation list")
    ctx.sample(behs[0])
    ctx.assumptions += ["2 providers (vault != provider address) x 3 chains, 2 delegators, 2 validators; amounts <= 3001",
                        "min self delegation 100; spec min stake 1000 on c1 and c3, 2000 on c2 (each entry is checked against its own "
                        "chain's minimum); no jailing, no explicit freeze tx",
                        "state logged one block after every transaction (begin/end blockers ran)"]
    findings, st = drive_and_validate(ctx, behs, "main", CLAUSES)
    ctx.cov["traces_validated_against_impl"] += len(behs)
    ctx.cov["trace_events"] = st["events"]
    ctx.cov["accepted_ops"] = st["ok_ops"]
    ctx.cov["rejected_ops"] = st["failed_ops"]
    ctx.cov["unstake_by_provider_multichain_with_delegations"] = st["multi_unstakeP"]
    if st["drift"]:
        ctx.drift.append("%d steps where the real state differs from Dualstaking.tla's prediction, first: behaviour %d step %d (%s)" % (
            len(st["drift"]), st["drift"][0][0], st["drift"][0][1] - 1, st["drift"][0][2]))
    need = ctx.pick(15, 150)
    for op in ("stake", "move", "unstakeV", "unstakeP", "dsdelegate", "dsunbond", "dsredelegate"):
        if st["ok_ops"].get(op, 0) < (need if op != "move" else max(3, need // 5)):
            raise vlib.Infra("vacuous: only %d accepted %s operations" % (st["ok_ops"].get(op, 0), op))
    ctx.cov["entries_between_the_two_spec_minima"] = {"high_min_chain_not_first": st["between_minima_high_chain_not_first"],
                                                      "low_min_chain_behind_high_min_first": st["between_minima_low_chain_behind_high_first"]}
    if st["between_minima_high_chain_not_first"] < 5 or st["between_minima_low_chain_behind_high_first"] < 5:
        raise vlib.Infra("vacuous: the per-chain minimum stake is not exercised in both stake orders (%d / %d states)" % (
            st["between_minima_high_chain_not_first"], st["between_minima_low_chain_behind_high_first"]))
    if st["multi_unstakeP"] < 1:
        raise vlib.Infra("vacuous: no accepted unstake by provider address on a multi-chain provider with delegations")
    confirm(ctx, findings, CLAUSES)


def replay(ctx, path):
    with open(path) as f:
        obj = vlib.json.load(f)
    findings, _ = drive_and_validate(ctx, obj["behaviours"], "replay", CLAUSES, seeds=obj.get("seeds"))
    done = set()
    for f in findings:
        if f["sig"] not in done:
            done.add(f["sig"])
            ctx.violation(f["sig"], what(f), {"behaviours": [f["beh"]], "seeds": [f["wseed"]]})
