"""C13 Plan versions used by live subscriptions remain available.  (DESIGN.md section 4, C13)

M: specs/Subscription.tla (plans + subscription over a transcription of the fixation store) is checked
   exhaustively by TLC: PlanAvailable / NoPanic for the code as fixed (FixRenew = TRUE) and - as a source of
   counter-example candidates - for renewSubscription as it was before the F1 fix (FixRenew = FALSE).
G: histories come from TLC only: error traces of the exhaustive runs + `-simulate` behaviours (general and
   plan-churn focused).
R: harness/t/subs replays them on a real chain (common.Tester, atomic txs, begin/end block under recover).
V: TLC validates the recorded trace with Trace_Subscription (Obs mode): after every step the chain's own
   FindPlan(sub.PlanIndex, sub.PlanBlock) / GetPlanFromSubscription answers for the live subscription and
   its advance purchase, no begin-block panic inside the plans fixation store, no tx failing with
   "plan of the subscription not found".  A second pass compares the spec's one-step prediction with the
   real post-state (drift only).
"""
import os
import sys

sys.path.insert(0, os.path.dirname(os.path.abspath(__file__)))
import subs_lib as sl  # noqa: E402
import vlib  # noqa: E402

LEVEL = "model_checking"
CFG = "Trace_Subscription_C13.cfg"


def ADV(a, n):
    return {"a": a, "cr": "", "c": "", "p": "", "d": 0, "f": False, "n": n}


def _check(ctx, behs, tag, drift=True):
    """replay + Obs validation; returns None or a finding dict"""
    tpath, rows = sl.drive(ctx, behs, tag)
    res = sl.validate(ctx, tpath, CFG, tag)
    if not res["accepted"]:
        f = sl.failing(res, rows, behs)
        ev = f["event"]
        bad = [c for c in sl.CONS if not (ev["cs"][c]["pfound"] and ev["cs"][c]["ffound"] and not ev["cs"][c]["perr"])]
        if f["inv"] in ("RefsCoverHolders", "HeldVersionsExist"):
            # refcount ghost: name the step kind that broke the bookkeeping
            k = ev["ev"]
            if k == "month" and f["off"] >= 2:
                ks = sorted({sl.month_kind(f["chunk"][f["off"] - 2], ev, c) for c in sl.CONS if sl.fired(f["chunk"][f["off"] - 2], ev, c)})
                k = "month-" + "+".join(ks)
            f["sig"] = "%s@%s" % (f["inv"], k)
            f["who"] = "-"
        else:
            cn = bad[0] if bad else next((c for c in sl.CONS if ev["cs"][c]["sub"]["on"]), "c1")
            f["sig"] = "%s@plan-ref-from-%s" % (f["inv"], sl.plan_ref_origin(f["chunk"], f["off"], cn))
            f["who"] = cn
        return f, rows
    if drift:
        r2 = sl.validate(ctx, tpath, "Trace_Subscription_drift.cfg", tag + "_drift", drift=True)
        dl = sl.drift_lines(r2)
        n = len([r for r in rows if r["ev"] != "reset"])
        if not r2["accepted"]:
            ctx.drift.append("%s: drift pass stopped (%s) at line %s" % (tag, r2["violated"], vlib.violated_line(r2)))
        if dl:
            ctx.drift.append("%s: spec prediction differs from the chain on %d%s of %d steps, first lines %s (%s)" % (
                tag, len(dl), "+" if len(dl) >= 50 else "", n, dl[:5], [rows[i - 1]["ev"] for i in dl[:5]]))
    return None, rows


def _report(ctx, f):
    ev = f["event"]
    subs = {c: {"plan": "%s@%s" % (ev["cs"][c]["sub"]["pi"], ev["cs"][c]["sub"]["pb"]), "found": ev["cs"][c]["pfound"],
                "future_found": ev["cs"][c]["ffound"], "lookup_failed": ev["cs"][c]["perr"]}
            for c in sl.CONS if ev["cs"][c]["sub"]["on"]}
    plans = {p: [(v["b"], v["ref"], v["latest"]) for v in vs] for p, vs in ev["plans"].items()}
    what = ("%s violated at step %d (%s): live subscriptions %s; plan versions (block, refcount, latest) %s; panic=%s %s" % (
        f["inv"], f["off"] - 1, ev["ev"], subs, plans, ev["panic"], ev["pmsg"][:200]))
    ctx.violation(f["sig"], what, {"behaviours": [f["beh"]]})


def _confirm(ctx, f, tag):
    """re-execute the single behaviour in a fresh driver run (extended by one month tick so that the
    follow-up panic is part of the witness when the first failure is the lookup)"""
    again, _ = _check(ctx, [f["beh"]], tag, drift=False)
    if again is None:
        raise vlib.Infra("counter-example not reproduced: %s" % f["sig"])
    _report(ctx, again)


def run(ctx):
    ctx.assumptions += [
        "two consumers (c1 rich, c2 420 tokens) and a poor third-party buyer, plans p1 < p2 with up to two price variants; buyers can be drained; epochBlocks 20, stale period 200 blocks (Tester defaults)",
        "an epoch is shorter than a month (no month expiry while a subscription version waits for the next epoch)",
        "BeginBlock order of testutil/keeper (timer stores before epochstorage)",
        "TLC bounds: see specs/Subscription_mc*.cfg",
    ]
    cands = []
    # M: design level, code as fixed: one consumer with every transaction kind; two consumers sharing one plan index
    runs = [(ctx.pick("Subscription_mcq.cfg", "Subscription_mc.cfg"), "Subscription (1 consumer, all txs, 2 plans)"),
            (ctx.pick("Subscription_mc2q.cfg", "Subscription_mc2.cfg"), "Subscription (2 consumers sharing a plan, drain, 1-month buys)")]
    if not ctx.quick:
        runs.append(("Subscription_mcf.cfg", "Subscription focused (1 consumer, 1 plan index, deeper)"))
    for cfg, name in runs:
        res, cand = sl.mc(ctx, cfg, timeout=ctx.pick(900, 3000))
        if cand:
            ctx.notes.append("design-level %s on %s: replayed as candidate" % (res["violated"], cfg))
            cands.append(cand)
        else:
            ctx.add_mc(name, res)
    # candidates from the pre-fix reading of renewSubscription (reference swap never runs)
    res, cand = sl.mc(ctx, "Subscription_mcf_asis.cfg", timeout=900)
    if not cand:
        raise vlib.Infra("pre-fix model no longer yields the F1 candidate - spec changed?")
    cands.append(cand + [ADV("month", 1)])
    ctx.notes.append("pre-fix model (FixRenew=FALSE): %s after %d steps; replayed" % (res["violated"], len(cand)))
    # reachability query: TLC constructs the shortest history in which an auto-renewal onto another plan version fails
    # for lack of funds while another consumer holds the old version; continued past the stale period and two expiries
    res, cand = sl.mc(ctx, "Subscription_cov1.cfg", timeout=1200)
    if not cand:
        raise vlib.Infra("coverage target 'failed renewal onto another version with a second holder' not reachable in the model")
    cands.append(cand + [ADV("stale", 219), ADV("month", 1), ADV("epoch", 19), ADV("month", 1)])   # (an epoch is shorter than a month)
    ctx.notes.append("coverage target reached by TLC after %d steps (%d states); replayed" % (len(cand), res["distinct"]))
    # G: simulation
    n = ctx.pick(60, 240)
    behs = sl.sim(ctx, "Subscription_sim.cfg", num=n, depth=14, tag="sim")[:ctx.pick(250, 800)]
    behs2 = sl.sim(ctx, "Subscription_simf.cfg", num=n, depth=14, tag="simf")[:ctx.pick(250, 800)]
    allb = cands + behs + behs2
    ctx.cov["evaluations"] = len(allb)
    ctx.sample(behs[0])
    finding, rows = _check(ctx, allb, "all")
    if finding is None:
        st = sl.stats(rows)
        ctx.cov["traces_validated_against_impl"] += len(allb)
        ctx.cov["trace_events"] = len(rows)
        ctx.cov["stats"] = dict(st)
        need = {"buy:new": 20, "month:renew": 5, "month:expire": 5, "planadd:ok": 50, "plandel:ok": 20,
                "plan-delete-matured-with-live-sub": 3, "month:renew-onto-other-version": 1, "plan-version-gc": 3,
                "buy:shares-plan-version": 5, "month:renew-failed": 2, "month:renew-failed-other-version-shared": 1}
        miss = {k: (st.get(k, 0), v) for k, v in need.items() if st.get(k, 0) < v}
        if miss:
            raise vlib.Infra("vacuous coverage (have, need): %s" % miss)
        ctx.cov["distinct_nontrivial"] = len({vlib.json.dumps(b) for b in allb
                                              if any(s["a"] == "month" for s in b) and any(s["a"] == "buy" for s in b)})
        ctx.cov["rule"] = ("behaviours = TLC error traces + TLC -simulate runs of Subscription.tla (14 steps); non-trivial = "
                           "contains a buy and a month tick; distinct by full action list")
        return
    _confirm(ctx, finding, "repro")


def replay(ctx, path):
    with open(path) as f:
        obj = vlib.json.load(f)
    finding, _ = _check(ctx, obj["behaviours"], "replay", drift=False)
    if finding:
        _report(ctx, finding)
