"""C37 Block processing never halts the chain.  (DESIGN.md section 4, C37)

Same machinery as C09 (checks/C09.py holds it): TLC generates whole-chain histories from LavaChain.tla, the Go
driver replays them on the real keepers advancing every block under recover(); a recovered begin/end-block
panic is logged (`panic`, message class) and ends that history; TLC validates the recorded traces in Obs mode
against the invariant NoPanic (Trace_LavaChain_C37.cfg).

History bias (families): renew = plan versions added / deleted under auto-renewed subscriptions, advance
purchases, expiries around days 28-31; stake = unstake to zero (by vault and by provider), slashes, delegations;
iprpc; all = every action kind incl. parameter changes.  Family "jump" additionally drops the time-model
assumption "an epoch is shorter than a month" (two month expiries of one subscription inside one epoch).

Signature of a finding: <begin|end>block-panic:<panic message class>@<what was due in that block>.
"""
import importlib.util
import os
import re
import vlib

LEVEL = "model_checking"

_spec = importlib.util.spec_from_file_location("hist_common", os.path.join(os.path.dirname(os.path.abspath(__file__)), "C09.py"))
H = importlib.util.module_from_spec(_spec)
_spec.loader.exec_module(H)

MSG_CLASSES = [
    (r"putEntry invalid refcount", "fixation putEntry invalid refcount"),
    (r"Int overflow", "int overflow"),
    (r"Division by zero|division by zero|divide by zero", "division by zero"),
    (r"getEntry failed|unknown entry", "fixation getEntry unknown entry"),
    (r"no such timer", "timerstore no such timer"),
    (r"nil pointer", "nil pointer dereference"),
    (r"negative coin amount|negative", "negative coin amount"),
]


def msg_class(m):
    for pat, name in MSG_CLASSES:
        if re.search(pat, m or ""):
            return name
    m = re.sub(r"[^A-Za-z ]+", " ", m or "")
    return " ".join(m.split())[:60]


def site_of(prev, ev):
    """what was due in the block(s) of this step (from the projection before the step and the clock after it)"""
    subs = prev.get("subs", {})
    if any(v.get("on") and v.get("live") and v.get("exp", 0) <= ev.get("t", 0) for v in subs.values()):
        return "beginblock", "subscription-expiry"
    if prev.get("refill", 0) and prev["refill"] <= ev.get("t", 0):
        return "endblock", "monthly-refill"
    if ev.get("ev") == "Slash":
        return "beginblock", "slash"
    if ev.get("ev") == "NextEpoch":
        return "beginblock", "epoch-start"
    if prev.get("ntimer", 0) > 0:
        return "endblock", "cu-tracker-payout"
    return "block", "plain"


def _sig(kind, prev, ev, fam="hist"):
    when, site = site_of(prev, ev)
    s = "%s-panic:%s@%s" % (when, msg_class(ev.get("pmsg")), site)
    if fam == "jump":
        s += "+epoch-longer-than-month"
    return s


def make_sig(jump):
    return lambda kind, prev, ev: _sig(kind, prev, ev, "jump" if jump else "hist")


def _what(kind, prev, ev, step):
    return "block processing panicked at step %d (%s %s, height %s): %s" % (
        step, ev.get("ev"), vlib.json.dumps(ev.get("step"))[:120], ev.get("h"), (ev.get("pmsg") or "")[:200])


def directed_histories():
    """History bias of DESIGN section 4 C37 / section 5 F1 that the random families reach only rarely (25 steps in a
    fixed order): auto-renewed subscription, new plan version, renewal, plan deletion, stale period, expiry.
    It uses only steps of the LavaChain vocabulary and is validated by TLC like every generated history."""
    me = {"a": "NextBlock", "dt": "monthend"}
    p10 = {"a": "NextBlock", "dt": "plus10"}
    ne = {"a": "NextEpoch"}
    out = []
    for plan, cons in (("PL1", "C1"), ("PL2", "C2")):
        h = [{"a": "SubBuy", "creator": cons, "cons": cons, "plan": plan, "months": 1, "auto": True}, ne,
             {"a": "PlanAdd", "plan": plan, "price": 100 if plan == "PL1" else 200}]
        h += [me, p10] * 3 + [ne, {"a": "PlanDel", "plan": plan}] + [ne] * 6 + [me, p10] * 4 + [ne]
        out.append(h)
    # reputation decay after a long gap between epoch starts (reported by the C24 family): governance sets a small
    # ReputationHalfLifeFactor, one relay payment with an excellence report stores a reputation, then more than
    # ~136 half-life factors pass between two epoch starts (here 26 days with a factor of one hour)
    out.append([{"a": "SubBuy", "creator": "C1", "cons": "C1", "plan": "PL1", "months": 2, "auto": False}, ne,
                {"a": "ParamChange", "pkey": "halfLife", "v": 3600},
                {"a": "RelayPay", "cons": "C1", "spec": "S1", "prov": "P1", "cu": 10}, ne,
                me, p10, ne, me, p10, ne, ne])
    # a month whose only relays are 1-CU relays with a bad QoS report: the tracked-CU entry exists but its value is 0;
    # RewardAndResetCuTracker (end-block timer a month + blocksToSave later) must return the credit, not divide by it
    out.append([{"a": "SubBuy", "creator": "C2", "cons": "C2", "plan": "PL1", "months": 2, "auto": False}, ne,
                {"a": "RelayPay", "cons": "C2", "spec": "S1", "prov": "P1", "cu": 1, "qos": "bad"},
                {"a": "RelayPay", "cons": "C2", "spec": "S1", "prov": "P2", "cu": 1, "qos": "bad"},
                me, p10, me, p10, me, p10, ne, ne, ne, ne, ne, ne])
    return out


def run(ctx):
    counts = H.plan(ctx, "C37")
    counts = dict(counts)
    counts["renew"] = int(counts["renew"] * 1.2)       # the bias this property asks for
    counts["jump"] = ctx.pick(8, 60)
    fams = H.gen_and_design(ctx, counts, ctx.pick(("_sub",), ("", "_sub", "_stake")))
    behs, families = [], []
    for fam in H.ALL_FAMILIES:
        for b in fams.get(fam, []):
            behs.append(b)
            families.append(fam)
    for b in directed_histories() + H.directed_common():
        behs.append(b)
        families.append("directed")
    H.common_cov(ctx, behs)
    ctx.cov["directed_histories"] = len(directed_histories()) + 1
    # one driver run and one TLC validation for all families; family "jump" (no "epoch shorter than a month"
    # assumption) only changes the signature suffix of what is found in it
    rows = H.hunt(ctx, "Trace_LavaChain_C37.cfg", behs, "hist", _sig, _what, families=families)
    nblocks = sum(1 for r in rows if r["res"] == "block")
    ctx.cov["block_steps"] = nblocks
    ctx.cov["month_expiries_crossed"] = sum(
        1 for i in range(1, len(rows)) if rows[i]["ev"] != "reset" and any(
            v.get("on") and v.get("live") and v.get("exp", 0) <= rows[i]["t"] for v in rows[i - 1]["subs"].values()))
    if nblocks < 100 or ctx.cov["month_expiries_crossed"] < 10:
        raise vlib.Infra("vacuous: %d block steps, %d month expiries" % (nblocks, ctx.cov["month_expiries_crossed"]))


def replay(ctx, path):
    with open(path) as f:
        obj = vlib.json.load(f)
    tpath, rows = H.drive(ctx, obj["behaviours"], "replay")
    bad = H.validate(ctx, "Trace_LavaChain_C37.cfg", tpath, "replay_v")
    if bad:
        ev = rows[bad["line"] - 1]
        prev = rows[bad["line"] - 2]
        sig = make_sig(obj.get("family") == "jump")(bad["kind"], prev, ev)
        ctx.violation(sig, "replayed history still fails: " + _what(bad["kind"], prev, ev, bad["line"] - 1),
                      {"behaviours": obj["behaviours"], "family": obj.get("family")})
