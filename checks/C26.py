"""C26 Content hashes identify relay requests unambiguously.  (DESIGN.md section 4, C26)

M: ContentHash.tla - the delimiter-free concatenation of RelayPrivateData.GetContentHashData over letters
   (1 letter = one 8-byte chunk, so the two block numbers are exactly one letter wide).  TLC enumerates
   every request of weight <= W, computes constructively every other request with the same encoding and
   prints every irreducible collision class (= set of differing fields) with witnesses; the sanity run
   must refute Injective (F11 at design level).
G: the witnesses of every class + all single-field mutations of two base requests (model: different).
R: harness/cmd/contenthash instantiates the pairs as real RelayPrivateData, computes the real
   sigs.HashMsg(GetContentHashData()) and the provider's session.ContentHash check.
V: TLC (Trace_ContentHash) judges every line: real collision modelled -> collision:{class} (open known
   findings, one per class); real collision the model does not have -> collision-unmodelled:{class}
   (VIOLATION, e.g. a field dropped from the hash); model collision that is not real -> drift; real hash input
   bytes != the model's Enc of the request -> encoding-mismatch (VIOLATION).
"""
import json
import os
import vlib

LEVEL = "model_checking"
WITNESSES = 2


def _judge(ctx, pairs, tag):
    binp = vlib.go_build("contenthash")
    vpath = os.path.join(ctx.work, tag + "_pairs.json")
    tpath = os.path.join(ctx.work, tag + "_trace.ndjson")
    vlib.write_json(vpath, pairs)
    vlib.run_harness(binp, [vpath, tpath])
    rows = vlib.read_ndjson(tpath)
    if len(rows) != len(pairs):
        raise vlib.Infra("driver wrote %d lines for %d pairs" % (len(rows), len(pairs)))
    res = vlib.tlc_mc(ctx, "Trace_ContentHash", "Trace_ContentHash.cfg", env={"VERIF_TRACE": tpath}, tag=tag + "_trace", timeout=900)
    if res["violated"]:
        raise vlib.Infra("trace judging stopped: %s (see %s)" % (res["violated"], res["outfile"]))
    hwm = [int(x) for x in vlib.re.findall(r'<<"HWM", (\d+)>>', res["out"])]
    if not hwm or max(hwm) != len(rows):
        raise vlib.Infra("TLC judged %s of %d lines (see %s)" % (hwm, len(rows), res["outfile"]))
    bad = {b["id"]: sorted(b["classes"]) for b in vlib.parse_emitted(res["out"], "BAD")}
    for cl in bad.values():
        for c in cl:
            if c.startswith("harness:"):
                raise vlib.Infra("harness problem: %s" % c)
    return rows, bad


def _candidates(ctx, bad):
    cand = {}
    for i in sorted(bad):
        for c in bad[i]:
            if c.startswith("drift:"):
                ctx.drift.append("%s (pair %d)" % (c, i))
            else:
                cand.setdefault(c, i)
    return cand


def _what(sig, row):
    if sig.startswith("collision:"):
        return ("different requests, same real content hash %s (differing fields %s): r1=%s r2=%s; a session signed for r1 passes the "
                "provider's content-hash check for r2: %s" % (row["h1"], sig.split(":", 1)[1], json.dumps(row["r1"], sort_keys=True),
                                                              json.dumps(row["r2"], sort_keys=True), row["reuse"]))
    if sig == "encoding-mismatch":
        return ("the real GetContentHashData bytes differ from ContentHash.tla's Enc: r1=%s real=%s ; r2=%s real=%s" % (
            json.dumps(row["r1"], sort_keys=True), "".join(row["e1"]), json.dumps(row["r2"], sort_keys=True), "".join(row["e2"])))
    if sig.startswith("collision-unmodelled:"):
        return ("different requests with different byte streams hash equal (%s) - not a delimiter collision: r1=%s r2=%s" % (
            sig.split(":", 1)[1], json.dumps(row["r1"], sort_keys=True), json.dumps(row["r2"], sort_keys=True)))
    return sig


def run(ctx):
    mc = vlib.tlc_mc(ctx, "ContentHash", "ContentHash_mcq.cfg", timeout=1800)
    if mc["violated"]:
        raise vlib.Infra("ContentHash: %s (see %s)" % (mc["violated"], mc["outfile"]))
    ctx.add_mc("ContentHash_mcq.cfg (all requests of weight <= 1, classes enumerated)", mc)
    classes = {}
    for rec in vlib.parse_emitted(mc["out"], "COL"):
        for c in rec["cols"]:
            classes.setdefault(c["cls"], set()).add(json.dumps({"r1": rec["r1"], "r2": c["r2"]}, sort_keys=True))
    inj = vlib.tlc_mc(ctx, "ContentHash", "ContentHash_inj.cfg", timeout=900)
    if inj["violated"] != "invariant:Injective":
        raise vlib.Infra("sanity: Injective must be refuted at design level (F11), got %s" % inj["violated"])
    if len(classes) < 10:
        raise vlib.Infra("vacuous: only %d collision classes enumerated" % len(classes))
    ctx.notes.append("design level: Injective refuted; %d irreducible collision classes: %s" % (len(classes), " ".join(sorted(classes))))
    pairs = []
    for c in sorted(classes):
        for w in sorted(classes[c])[:WITNESSES]:
            pairs.append(json.loads(w))
    n_col = len(pairs)
    opath = os.path.join(ctx.work, "mutpairs.ndjson")
    vlib.tlc_mc(ctx, "Emit_ContentHash", "Emit_ContentHash.cfg", workers=1, env={"VERIF_OUT": opath}, timeout=600, tag="emit")
    mut = vlib.read_ndjson(opath)
    n_multi = sum(1 for p in mut if len(p["r1"]["metadata"]) >= 2)
    if len(mut) - n_multi < 40 or n_multi < 300:
        raise vlib.Infra("only %d single-field / %d multi-entry-metadata model-distinct pairs emitted" % (len(mut) - n_multi, n_multi))
    ctx.cov["md_multi_entry_pairs"] = n_multi
    pairs += mut
    pairs += [{"r1": mut[0]["r1"], "r2": mut[0]["r1"]}, {"r1": mut[-1]["r2"], "r2": mut[-1]["r2"]}]
    rows, bad = _judge(ctx, pairs, "all")
    n_diff = sum(1 for r in rows if not r["equal"])
    fields_mut = set()
    for r in rows[n_col:]:
        fields_mut |= {f for f in r["r1"] if r["r1"][f] != r["r2"][f]}
    if n_diff < 40 or len(fields_mut) < 10:
        raise vlib.Infra("vacuous: %d real-different pairs, %d fields mutated" % (n_diff, len(fields_mut)))
    ctx.cov["evaluations"] = len(rows)
    ctx.cov["distinct_nontrivial"] = len({json.dumps([r["r1"], r["r2"]], sort_keys=True) for r in rows if r["r1"] != r["r2"]})
    ctx.cov["collision_classes"] = len(classes)
    ctx.cov["real"] = {"pairs": len(rows), "hash_equal": len(rows) - n_diff, "hash_different": n_diff}
    ctx.cov["rule"] = ("pairs = %d witnesses per irreducible collision class found by TLC (%d classes) + every single-field mutation of "
                       "two base requests (every hashed field mutated; model says different) + equal-length mutations of an earlier entry "
                       "of every 2-3 entry metadata list of MdLists + 2 identical pairs; for every request the real hash input is compared "
                       "with the model's Enc; non-trivial = the two requests differ" % (WITNESSES, len(classes)))
    ctx.cov["traces_validated_against_impl"] += len(rows)
    ctx.sample(pairs[0])
    ctx.sample(pairs[n_col])
    ctx.assumptions += ["bounded model: letters {a,b}, requests of weight <= 1 (one movable 8-byte chunk), <= 1 metadata entry, <= 2 extensions; "
                        "one letter is instantiated as one 8-byte chunk", "SHA-256 collision resistance assumed"]
    cand = _candidates(ctx, bad)
    if not cand:
        return
    sigs_ = sorted(cand)
    reps = [pairs[cand[s]] for s in sigs_]
    rows2, bad2 = _judge(ctx, reps, "repro")
    for k, s in enumerate(sigs_):
        if s not in bad2.get(k, []):
            raise vlib.Infra("counter-example not reproduced: %s" % s)
        ctx.violation(s, _what(s, rows2[k]), {"pairs": [reps[k]], "signature": s})


def replay(ctx, path):
    with open(path) as f:
        obj = json.load(f)
    rows, bad = _judge(ctx, obj["pairs"], "replay")
    for s, i in sorted(_candidates(ctx, bad).items()):
        ctx.violation(s, "replayed pair still collides: " + _what(s, rows[i]), {"pairs": [obj["pairs"][i]], "signature": s})
