"""C06 Provider delegations mirror validator delegations.  (DESIGN.md section 4, C06)

Same spec, generator and driver as C07 (specs/Dualstaking.tla, harness/t/dualstaking), here with the
validator-side operations that C06 quantifies over: staking delegate / undelegate / redelegate (with the
hook-disable flag set exactly as the ante handler does, per transaction) / cancel-unbonding / validator slash
(HandleSlashedValidators at the block boundary), interleaved with the dual-staking and provider stake txs.
V (Obs): per delegator | sum of provider delegations incl. the empty provider - sum of validator tokens |
<= #validators, and no provider delegation is negative, evaluated by TLC on every real state
(Trace_Dualstaking: Mirror, NonNegative).  The keeper's own VerifyDelegatorBalance is logged as well and
compared in the coverage section (an oracle that silently agrees with a bug would show up there).
"""
import importlib.util
import os
import vlib

LEVEL = "model_checking"
CLAUSES = ("Mirror", "NonNegative")
_spec = importlib.util.spec_from_file_location("check_C07_shared", os.path.join(os.path.dirname(os.path.abspath(__file__)), "C07.py"))
C07 = importlib.util.module_from_spec(_spec)
_spec.loader.exec_module(C07)


def what(f):
    ev = f["event"]
    a = {k: v for k, v in ev["a"].items() if v not in ("", 0)}
    return "%s after %s: provider delegations = %s, validator tokens = %s, VerifyDelegatorBalance = %s" % (
        f["sig"], vlib.json.dumps(a, sort_keys=True), vlib.json.dumps(ev["dg"], sort_keys=True),
        vlib.json.dumps(ev["vd"], sort_keys=True), vlib.json.dumps(ev["diff"], sort_keys=True))


PROVS = ("p1", "p2")
VALS = ("va", "vb")


def _refine(f):
    """Narrow the signature of a mirror violation that appears at a slash: is every unbalanced delegator a vault
    whose re-balancing unbond was written on the delegation but refused on the stake entries (entry stakes no
    longer sum to the vault's delegation = 'self delegation below minimum' returned by AfterDelegationModified and
    ignored by BalanceValidatorsDelegators)?"""
    ev = f["event"]
    if not f["sig"].startswith("Mirror@slash"):
        return f
    bad = []
    for w in ev["vd"]:
        prov = sum(ev["dg"][q][w] for q in ev["dg"])
        val = sum(ev["vd"][w].values())
        if abs(prov - val) > len(VALS):
            bad.append(w)
    def refused(w):
        if not w.startswith("v"):
            return False
        p = "p" + w[1:]
        if p not in ev["m"] or not ev["m"][p]["on"]:
            return False
        stakes = sum(x["stake"] for x in ev["e"][p].values() if x["on"])
        return stakes > ev["dg"][p][w]
    if bad and all(refused(w) for w in bad):
        f = dict(f, sig="Mirror@slash:vault-unbond-refused-below-min-self-delegation")
    return f


def _confirm(ctx, findings):
    findings = [_refine(f) for f in findings]
    by_sig = {}
    for f in findings:
        cur = by_sig.get(f["sig"])
        if cur is None or len(f["beh"]) < len(cur["beh"]):
            by_sig[f["sig"]] = f
    for i, (sig, f) in enumerate(sorted(by_sig.items())):
        again, _ = C07.drive_and_validate(ctx, [f["beh"]], "repro%d" % i, CLAUSES, seeds=[f["wseed"]])
        same = [g for g in map(_refine, again) if g["sig"] == sig]
        if not same:
            raise vlib.Infra("counter-example not reproduced: %s" % sig)
        ctx.violation(sig, what(same[0]), {"behaviours": [f["beh"]], "seeds": [f["wseed"]]})


def run(ctx):
    mc = vlib.tlc_mc(ctx, "Dualstaking", ctx.pick("Dualstaking_mcq.cfg", "Dualstaking_mc.cfg"), timeout=ctx.pick(900, 5400))
    if mc["violated"]:
        raise vlib.Infra("design-level spec violates %s; spec must be repaired (see %s)" % (mc["violated"], mc["outfile"]))
    ctx.add_mc("Dualstaking exhaustive (Mirror: provider side = validator side, no slashing in the model)", mc)
    behs = C07.generate(ctx, keep_slash=True)
    ctx.cov["evaluations"] = len(behs)
    val_ops = ("valdelegate", "valundelegate", "valredelegate", "cancelunbond", "slash")
    ctx.cov["distinct_nontrivial"] = len({vlib.json.dumps(b) for b in behs
                                          if sum(1 for s in b if s["op"] in val_ops) >= 2 and any(s["op"].startswith("ds") or s["op"] == "stake" for s in b)})
    ctx.cov["rule"] = ("behaviour = 16 operations drawn by TLC -simulate from Dualstaking.tla GenNext; non-trivial = at least two "
                       "validator-side operations (delegate/undelegate/redelegate/cancel-unbond/slash) and one provider-side tx; "
                       "distinct by full operation list")
    ctx.sample(behs[0])
    ctx.assumptions += ["2 validators, 2 delegators + 2 vaults, 2 providers + empty provider; slash fractions 1/2, 1/3, 1/10",
                        "the redelegation flag is set per transaction by ante.RedelegationFlager.DisableRedelegationHooks",
                        "slashing = SlashingKeeper.Slash + dualstaking BeginBlock (testutil SlashValidator), state logged one block later"]
    findings, st = C07.drive_and_validate(ctx, behs, "main", CLAUSES)
    ctx.cov["traces_validated_against_impl"] += len(behs)
    ctx.cov["trace_events"] = st["events"]
    ctx.cov["accepted_ops"] = st["ok_ops"]
    ctx.cov["rejected_ops"] = st["failed_ops"]
    rows = vlib.read_ndjson(os.path.join(ctx.work, "main_trace.ndjson"))
    ctx.cov["states_where_keeper_oracle_reports_imbalance"] = sum(1 for r in rows if any(v != 0 for v in r["diff"].values()))
    ctx.cov["redelegations_with_flag_set"] = sum(1 for r in rows if r["ev"] == "valredelegate" and r["ok"] and r["flag"])
    need = ctx.pick(15, 150)
    for op in val_ops + ("dsdelegate", "dsredelegate", "stake"):
        if st["ok_ops"].get(op, 0) < (need if op != "cancelunbond" else max(2, need // 5)):
            raise vlib.Infra("vacuous: only %d accepted %s operations" % (st["ok_ops"].get(op, 0), op))
    bad_flag = [r for r in rows if r["ev"] == "valredelegate" and r["ok"] and not r["flag"]]
    if bad_flag:
        raise vlib.Infra("driver did not set the redelegation flag as the ante handler does")
    _confirm(ctx, findings)


def replay(ctx, path):
    with open(path) as f:
        obj = vlib.json.load(f)
    findings, _ = C07.drive_and_validate(ctx, obj["behaviours"], "replay", CLAUSES, seeds=obj.get("seeds"))
    done = set()
    for f in map(_refine, findings):
        if f["sig"] not in done:
            done.add(f["sig"])
            ctx.violation(f["sig"], what(f), {"behaviours": [f["beh"]], "seeds": [f["wseed"]]})
