"""C31 Batch requests are summarised order-independently.  (DESIGN.md section 4, C31)

M: BatchBlocks.tla - transcription of CompareRequestedBlockInBatch, the ParseMsg fold, RequestedBlock()
   (earliest 0 = unset), CU sum and the archive decision of a batch; TLC checks exhaustively (all
   batches up to MaxLen over the member alphabet, all permutations) that the *repaired* fold (earliest
   seeded from the first member, EARLIEST tag lowest in the latest callback) satisfies the property.
   The as-found variants are run too; their counter-examples are only notes.
G: TLC emits every multiset of members (sorted representative) x latest block.
R: this file renders every distinct order of the multiset as a real JSON-RPC batch, and every member
   as a single request; harness/cmd/chainparse parses them with the real JsonRPCChainParser (ETH1).
V: Trace_BatchBlocks (Obs mode): TLC evaluates the property's predicates on the real answers:
   CU sum, order independence of (latest, earliest), range coverage, archive monotonicity.
   Model equality (real summary = BatchBlocks!Summary) is a drift-only second pass.
"""
import itertools
import json
import os
import re
import vlib

LEVEL = "model_checking"

TAGS = {-2: "latest", -3: "earliest", -4: "pending", -5: "safe", -6: "finalized"}
NAME = dict(TAGS)
NAME[-1] = "n/a"
ADDR = "0x" + "11" * 20
_BIN = {}


def _bin():
    if "p" not in _BIN:
        _BIN["p"] = vlib.go_build("chainparse")
    return _BIN["p"]


def _blk(b):
    return hex(b) if b >= 0 else TAGS[b]


def render_member(m, rid):
    k, b = m["k"], m["b"]
    if k == "bal":
        method, params = "eth_getBalance", [ADDR, _blk(b)]
    elif k == "call":
        method, params = "eth_call", [{"to": ADDR, "data": "0x"}, _blk(b)]
    elif k == "logs":
        method, params = "eth_getLogs", [{"fromBlock": hex(max(b - 1, 0)), "toBlock": hex(b), "address": ADDR}]
    elif k == "num":
        method, params = "eth_blockNumber", []
    elif k == "none":
        method, params = "eth_mining", []
    else:
        raise vlib.Infra("unknown member kind %r" % k)
    return {"jsonrpc": "2.0", "id": rid, "method": method, "params": params}


def render_member_tm(m, rid):
    """Tendermint RPC (JSON-RPC form) rendering of a member on the LAV1 spec."""
    k, b = m["k"], m["b"]
    if k == "bal":
        method, params = "block", {"height": str(b) if b >= 0 else TAGS[b]}
    elif k == "num":
        method, params = "status", {}
    elif k == "none":
        method, params = "genesis", {}
    else:
        raise vlib.Infra("member kind %r has no tendermint rendering" % k)
    return {"jsonrpc": "2.0", "id": rid, "method": method, "params": params}


def perms_of(members):
    """every distinct order, as 1-based index sequences; the identity first."""
    n = len(members)
    seen, res = set(), []
    for p in itertools.permutations(range(n)):
        key = tuple((members[i]["b"], members[i]["k"]) for i in p)
        if key in seen:
            continue
        seen.add(key)
        res.append([i + 1 for i in p])
    return res


def _jobs(vectors, tm=False):
    jobs = []
    rm = render_member_tm if tm else render_member
    spec, iface, rule, conn = ("LAV1", "tendermintrpc", 127, "") if tm else ("ETH1", "jsonrpc", 0, "POST")
    for v in vectors:
        ms, latest = v["members"], v["latest"]
        perms = v.get("perms") or perms_of(ms)
        items = []
        for nopol in (False, True):
            for p in perms:
                data = json.dumps([rm(ms[i - 1], pos + 1) for pos, i in enumerate(p)])
                items.append({"url": "", "data": data, "conn": conn, "latest": latest, "nopol": nopol})
        for nopol in (False, True):
            for m in ms:
                items.append({"url": "", "data": json.dumps(rm(m, 1)), "conn": conn,
                              "latest": latest, "nopol": nopol})
        jobs.append({"in": {"members": ms, "latest": latest, "perms": perms},
                     "spec": spec, "iface": iface, "rule": rule, "policy": ["archive"], "items": items})
    return jobs


def _shape(members):
    return ",".join(NAME.get(m["b"], str(m["b"])) + ("" if m["k"] in ("bal", "none") else ":" + m["k"]) for m in members)


def signature(kind, row, p):
    ms = row["in"]["members"]
    P = len(row["in"]["perms"])
    o = row["out"][p - 1] if p else {}
    has_na = any(m["b"] == -1 for m in ms)
    # block 0 (genesis) is also the "unset" sentinel of the earliest block (F19d): own, narrow class
    z = ":block0" if any(m["b"] == 0 for m in ms) else ""
    if kind == "cu":
        return "cu-not-sum"
    if kind == "orderlat":
        return "order-dependent:latest" + z
    if kind == "orderearl":
        return "order-dependent:earliest" + z
    if kind == "orderarch":
        return "order-dependent:archive" + z
    if kind == "low":
        return "uncovered-low:na-absorbs" if (has_na and o.get("earl") == -1) else "uncovered-low" + z
    if kind == "high":
        return "uncovered-high" + z
    if kind == "mono":
        return "archive-missing:na-absorbs" if (has_na and o.get("earl") == -1) else "archive-missing" + z
    return kind


def _record(ctx, vectors, tag, tm=False):
    binp = _bin()
    jpath = os.path.join(ctx.work, tag + "_jobs.json")
    tpath = os.path.join(ctx.work, tag + "_trace.ndjson")
    vlib.write_json(jpath, {"repo": vlib.REPO, "jobs": _jobs(vectors, tm)})
    vlib.run_harness(binp, [jpath, tpath])
    rows = vlib.read_ndjson(tpath)
    if len(rows) != len(vectors):
        raise vlib.Infra("driver produced %d lines for %d vectors" % (len(rows), len(vectors)))
    return rows, tpath


def _check(ctx, rows, tpath, tag, match_cfg=None, tm=False):
    """TLC evaluates the property on the recorded lines -> (failures, drift_count)."""
    res = vlib.tlc_trace(ctx, "Trace_BatchBlocks", match_cfg or "Trace_BatchBlocks_fixed.cfg", tpath, tag=tag,
                         env={"VERIF_MATCH_MODEL": "1" if match_cfg else "0"}, timeout=1800)
    if not res["accepted"] or res["reached"] != len(rows):
        raise vlib.Infra("trace walk incomplete (%s, reached %s of %d; see %s)" % (
            res["violated"], res["reached"], len(rows), res["outfile"]))
    fails = []
    for m in re.finditer(r'<<"BAD", (\d+), (\d+), "(\w+)">>', res["out"]):
        i, p, kind = int(m.group(1)), int(m.group(2)), m.group(3)
        row = rows[i - 1]
        if kind == "panic":
            bad = [o for o in row["out"] if o["panic"] or o["hang"]][0]
            vec = {"members": row["in"]["members"], "latest": row["in"]["latest"]}
            P = len(row["in"]["perms"])
            fails.append({"kind": kind, "vector": vec, "perm": 1, "tm": tm,
                          "sig": ("hang" if bad["hang"] else "panic") + "@batch-or-member" + ("@tendermintrpc" if tm else ""),
                          "out": bad, "first": row["out"][0], "order": row["in"]["members"],
                          "singles": row["out"][2 * P:2 * P + len(row["in"]["members"])]})
            continue
        if kind == "bind":
            bad = [o for o in row["out"] if o["err"] or o["panic"] or o["hang"]]
            raise vlib.Infra("binding: vector %s: a rendered request did not parse as intended: %s" % (
                json.dumps(row["in"])[:300], json.dumps(bad[:1] or row["out"][-1])[:300]))
        vec = {"members": row["in"]["members"], "latest": row["in"]["latest"]}
        P = len(row["in"]["perms"])
        fails.append({"kind": kind, "vector": vec, "perm": p, "tm": tm,
                      "sig": signature(kind, row, p) + ("@tendermintrpc" if tm else ""),
                      "out": row["out"][p - 1], "first": row["out"][0],
                      "order": [row["in"]["members"][j - 1] for j in row["in"]["perms"][p - 1]],
                      "singles": row["out"][2 * P:2 * P + len(row["in"]["members"])]})
    drift = len(re.findall(r'<<"DRIFT", \d+, \d+>>', res["out"]))
    return fails, drift


def _validate(ctx, vectors, tag, tm=False):
    rows, tpath = _record(ctx, vectors, tag, tm)
    fails, _ = _check(ctx, rows, tpath, tag, tm=tm)
    nb = sum(len(r["in"]["perms"]) for r in rows)
    ctx.cov["traces_validated_against_impl"] += len(rows)
    ctx.cov["real_batches_parsed"] = ctx.cov.get("real_batches_parsed", 0) + 2 * nb
    ctx.cov["real_batches_archive"] = ctx.cov.get("real_batches_archive", 0) + sum(
        1 for r in rows for o in r["out"][:len(r["in"]["perms"])] if o["arch"])
    return fails, rows, nb


def _describe(f):
    o, s = f["out"], f["singles"]
    if f["kind"] == "panic":
        return "batch [%s] latest=%d: the real ParseMsg %s on the batch or on a member parsed alone: %s" % (
            _shape(f["vector"]["members"]), f["vector"]["latest"], "hung" if o.get("hang") else "panicked", o.get("panics"))
    return ("batch [%s] latest=%d parsed as order [%s]: summary (latest=%s, earliest=%s, archive=%s, cu=%s); "
            "first order gives (latest=%s, earliest=%s, archive=%s); members alone need archive: %s" % (
                _shape(f["vector"]["members"]), f["vector"]["latest"], _shape(f["order"]),
                NAME.get(o["lat"], o["lat"]), NAME.get(o["earl"], o["earl"]), o["arch"], o["cu"],
                NAME.get(f["first"]["lat"], f["first"]["lat"]), NAME.get(f["first"]["earl"], f["first"]["earl"]),
                f["first"]["arch"], [x["arch"] for x in s]))


def run(ctx):
    mc = vlib.tlc_mc(ctx, "BatchBlocks", ctx.pick("BatchBlocks_mcq.cfg", "BatchBlocks_mc.cfg"), timeout=900)
    if mc["violated"]:
        raise vlib.Infra("design-level: repaired fold violates %s (see %s)" % (mc["violated"], mc["outfile"]))
    ctx.add_mc("BatchBlocks all batches x permutations (repaired fold)", mc)
    for cfg, what in () if ctx.quick else (("BatchBlocks_unseeded.cfg", "as-found fold (earliest not seeded, F19) / OrderIndependent"),
                      ("BatchBlocks_unseeded2.cfg", "as-found fold (earliest not seeded, F19) / CoversNoNA"),
                      ("BatchBlocks_taglatest.cfg", "seeded fold with the as-found latest callback (F19b) / OrderIndependent"),
                      ("BatchBlocks_zero.cfg", "seeded fold, callbacks testing > 0 and 0 = unset (F19d) / OrderIndependent, CoversNoNA"),
                      ("BatchBlocks_na.cfg", "repaired fold / ArchiveMonotone including n/a members (F19c)")):
        r = vlib.tlc_mc(ctx, "BatchBlocks", cfg, timeout=600, tag=cfg[:-4])
        i = r["out"].find("Error: Invariant")
        ctx.notes.append("design-level %s: %s" % (what, " ".join(r["out"][i:].split())[:220] if r["violated"] else "no violation"))

    em = vlib.tlc_emit(ctx, "BatchBlocks", ctx.pick("BatchBlocks_emitq.cfg", "BatchBlocks_emit.cfg"), timeout=900)
    vectors = [{"members": b["members"], "latest": b["latest"]} for b in em["behaviours"]]
    ctx.cov["evaluations"] = len(vectors)
    nontriv = [v for v in vectors if len(v["members"]) >= 2 and any(m["b"] >= 0 for m in v["members"])
               and len({(m["b"], m["k"]) for m in v["members"]}) >= 2]
    ctx.cov["distinct_nontrivial"] = len(nontriv)
    ctx.cov["rule"] = ("vectors = every multiset of <= MaxLen members over the TLC alphabet (block tags, n/a, numbers through "
                       "eth_getBalance / eth_call / eth_getLogs) x latest block; each is parsed by the real parser in every distinct "
                       "order and member by member; non-trivial = at least two different members, one numeric")
    if len(nontriv) < 100:
        raise vlib.Infra("vacuous: only %d non-trivial batches" % len(nontriv))
    ctx.sample(vectors[len(vectors) // 2])
    ctx.sample(json.dumps([render_member(m, i + 1) for i, m in enumerate(nontriv[0]["members"])]))
    ctx.assumptions += ["batches of at most %d members over the alphabet of specs/BatchBlocks_*.cfg" % ctx.pick(3, 4),
                        "JSON-RPC interface of the checked-in ETH1 spec, archive rule 127; CU compared on a parser without "
                        "policy (extension CU multiplier not applied)",
                        "a summarised latest that is a non-earliest tag (latest/pending/safe/finalized/n-a) is an open upper bound"]
    fails, rows, nb = _validate(ctx, vectors, "grid")
    ctx.cov["distinct_orders_parsed"] = nb
    if ctx.cov["real_batches_archive"] == 0 and not fails:
        raise vlib.Infra("no batch was ever marked archive by the real parser (dead binding)")
    # drift-only: which model variant does the code follow?  (sub-sample of the recorded lines)
    sub = rows[::ctx.pick(3, 11)]
    spath = os.path.join(ctx.work, "drift_trace.ndjson")
    vlib.write_ndjson(spath, sub)
    for cfg in ("Trace_BatchBlocks_fixed.cfg", "Trace_BatchBlocks_head.cfg", "Trace_BatchBlocks_seeded.cfg",
                "Trace_BatchBlocks_asfound.cfg"):
        _, d = _check(ctx, sub, spath, "drift_" + cfg[18:-4], match_cfg=cfg)
        ctx.notes.append("model equality with %s on %d sampled lines: %d differing batch orders" % (cfg, len(sub), d))
        if d == 0:
            break
    else:
        ctx.drift.append("real batch summaries equal none of the BatchBlocks variants (fixed / head / seeded / as-found)")
    # ---- sibling loop: TendermintChainParser.ParseMsg (tendermintRPC.go), same model with Tendermint = TRUE ----
    mct = vlib.tlc_mc(ctx, "BatchBlocks", ctx.pick("BatchBlocks_tmq.cfg", "BatchBlocks_tm.cfg"), timeout=900, tag="BatchBlocks_tm")
    if mct["violated"]:
        raise vlib.Infra("design-level: tendermint fold violates %s (see %s)" % (mct["violated"], mct["outfile"]))
    ctx.add_mc("BatchBlocks tendermint fold, all batches x permutations", mct)
    emt = vlib.tlc_emit(ctx, "BatchBlocks", ctx.pick("BatchBlocks_tmemitq.cfg", "BatchBlocks_tmemit.cfg"), timeout=900, tag="BatchBlocks_tmemit")
    tvectors = [{"members": b["members"], "latest": b["latest"]} for b in emt["behaviours"]]
    ctx.cov["evaluations"] += len(tvectors)
    before = ctx.cov["real_batches_archive"]
    tfails, trows, tnb = _validate(ctx, tvectors, "tmgrid", tm=True)
    ctx.cov["tendermint_orders_parsed"] = tnb
    if ctx.cov["real_batches_archive"] == before and not tfails:
        raise vlib.Infra("no tendermint batch was ever marked archive by the real parser (dead binding)")
    tsub = trows[::ctx.pick(3, 11)]
    tspath = os.path.join(ctx.work, "tmdrift_trace.ndjson")
    vlib.write_ndjson(tspath, tsub)
    _, d = _check(ctx, tsub, tspath, "tmdrift", match_cfg="Trace_BatchBlocks_tm.cfg", tm=True)
    ctx.notes.append("tendermint: model equality with Trace_BatchBlocks_tm.cfg on %d sampled lines: %d differing batch orders" % (len(tsub), d))
    if d:
        ctx.drift.append("real tendermint batch summaries differ from BatchBlocks (Tendermint = TRUE) on %d orders" % d)
    ctx.assumptions += ["tendermint pass: JSON-RPC form batches on the checked-in LAV1 spec (block / status / genesis), archive rule "
                        "patched to 127, no eth_call members, no block 0 (tendermint heights start at 1)"]

    seen = {}
    for f in fails + tfails:
        seen.setdefault(f["sig"], []).append(f)
    ctx.cov["failing_batch_orders"] = len(fails) + len(tfails)
    if not seen:
        return
    wit = {sig: min(fl, key=lambda f: (len(f["vector"]["members"]), f["perm"])) for sig, fl in seen.items()}
    # one fresh driver + TLC run per interface on the witnesses only
    again = []
    for tm in (False, True):
        ws = [w["vector"] for w in wit.values() if w["tm"] == tm]
        if ws:
            again += _validate(ctx, ws, "repro_tm" if tm else "repro", tm=tm)[0]
    for sig, w in sorted(wit.items()):
        if not [a for a in again if a["sig"] == sig and a["vector"] == w["vector"]]:
            raise vlib.Infra("counter-example not reproduced: %s %s" % (sig, json.dumps(w["vector"])))
        rm = render_member_tm if w["tm"] else render_member
        ctx.violation(sig, ("tendermintrpc " if w["tm"] else "") + _describe(w) + " (%d batch orders in this class)" % len(seen[sig]),
                      {"vectors": [w["vector"]], "tm": w["tm"], "batch": [rm(m, i + 1) for i, m in enumerate(w["order"])]})


def replay(ctx, path):
    with open(path) as f:
        obj = json.load(f)
    fails, _, _ = _validate(ctx, obj["vectors"], "replay", tm=bool(obj.get("tm")))
    done = set()
    for f in fails:
        if f["sig"] in done:
            continue
        done.add(f["sig"])
        ctx.violation(f["sig"], "replayed batch still fails: " + _describe(f), {"vectors": [f["vector"]]})
