"""C27 Provider sessions enforce CU limits and replay protection under concurrency. (DESIGN.md section 4, C27)

M: ProviderSessions.tla exhaustively (relay incl. the registration path IsActiveProject -> registerNewConsumer ->
   GetSession / UpdateSessionCU / UpdateEpoch processes whose labels are the yield points of the code) - invariants
   OnePerSession, OneObject, OneProjectEntry, Accounting(Strong), MissingBounded,
   QuietUnlocked, action properties AcceptWithinMax, RelayNumIncreases, AcceptedRelayNum, deadlock freedom.
G: schedules (scenario + sequence of process names) from TLC: -simulate (seeded) in both tiers, plus the
   exhaustive enumeration of every schedule of the small scenarios ScnEnum in the thorough tier.
R: harness/cmd/provsessions replays every schedule with a gate scheduler on the real ProviderSessionManager
   (hooks/lavasession_provider.patch, lavasession_provider_register.patch) and logs the projected state after every step.
V: TLC validates the recorded trace: Obs mode evaluates the C27 invariants on the real states (violation =
   statement about the code, re-executed before it is reported); Conf mode requires every real step to be
   the spec's step (rejection = the model no longer predicts the code: exit 2, never a violation).
"""
import json
import os
import re
import vlib

LEVEL = "model_checking"
HOOK_FILE = "protocol/lavasession/provider_verif.go"
LABELS = {"register", "regnew", "regget", "create", "got", "addcas", "work", "subcas", "uloaded", "uswapped"}
OUTCOMES = {"ok", "failed", "busy", "out_of_sync", "max_cu", "cu_mismatch", "invalid_epoch", "failed_stale"}


def _norm(b):
    par = dict(b["par"])
    for k in ("rel", "upd", "ep"):
        if isinstance(par.get(k), list):
            par[k] = {}
    if not isinstance(par.get("pre"), list):
        par["pre"] = []
    return {"par": par, "sched": list(b["sched"])}


def _need_hooks():
    p = os.path.join(vlib.REPO, HOOK_FILE)
    if not os.path.exists(p):
        raise vlib.Infra("schedule hooks missing in %s (no %s): apply /verif/hooks/lavasession_provider.patch "
                         "(after fixes/F8, F9) or run with VERIF_REPO=<tree with hooks>" % (vlib.REPO, HOOK_FILE))
    src = open(p).read()
    for sym in ("VerifYield", "VerifUsedComputeUnits", "VerifIsLocked"):
        if sym not in src:
            raise vlib.Infra("hook symbol %s missing in %s" % (sym, p))
    mgr = open(os.path.join(vlib.REPO, "protocol/lavasession/provider_session_manager.go")).read()
    for point in ("reg_before_register", "reg_before_getsession", "usc_loaded"):
        if point not in mgr:
            raise vlib.Infra("yield point %s missing in %s/protocol/lavasession/provider_session_manager.go: apply "
                             "/verif/hooks/lavasession_provider_register.patch" % (point, vlib.REPO))


def _signature(name, ev):
    """canonical class of the failing real state (stable across seeds)"""
    sids = [o["sid"] for o in ev.get("objs", [])]
    if ev.get("npswc", 0) > 1:
        return "second-project-entry:" + name              # a project got a second entry (fresh CU budget) in one epoch
    if len(set(sids)) < len(sids):
        return "duplicate-session-object:" + name          # F9 class: two objects for one session id
    if name in ("Accounting", "AccountingStrong"):
        idx = {int(k): int(v) for k, v in ev.get("smap", [])}
        tot = sum(ev["objs"][i - 1]["cuSum"] for i in idx.values() if 0 < i <= len(ev.get("objs", [])))
        return "Accounting:used%ssum-of-session-cu" % (">" if ev.get("used", 0) > tot else "<")
    return name


_BIN = []


def _bin():
    if not _BIN:
        _BIN.append(vlib.go_build("provsessions"))
    return _BIN[0]


def _replay(ctx, behs, tag, conf=True):
    """returns (bad, stats). bad = None | dict(sig, beh, what)"""
    binp = _bin()
    bpath = os.path.join(ctx.work, tag + "_behaviours.json")
    tpath = os.path.join(ctx.work, tag + "_trace.ndjson")
    vlib.write_json(bpath, behs)
    p = vlib.run_harness(binp, [bpath, tpath], timeout=3600)
    try:
        hs = json.loads(p.stdout.strip().splitlines()[-1])
    except Exception:
        raise vlib.Infra("harness printed no summary: %s" % p.stdout[-500:])
    rows = vlib.read_ndjson(tpath)
    if not rows:
        raise vlib.Infra("dead driver: empty trace")
    tr = lambda mode: vlib.tlc_trace(ctx, "Trace_ProviderSessions", "Trace_ProviderSessions.cfg", tpath, env={"VERIF_MODE": mode},
                                     tag=tag + "_" + mode, timeout=3000)
    # pass 1: Conf mode with the invariants switched on (conforming steps produce exactly the observed states, so the
    # invariants are evaluated on real observations); only if it does not go through, pass 2 (Obs mode) decides whether
    # the real states violate the property (VIOLATION candidate) or the model merely mis-predicted the code (drift)
    res2 = tr("conf") if conf else None
    if res2 is None or not res2["accepted"]:
        res = tr("obs")
        if not res["accepted"]:
            if res["violated"] == "postcondition":
                raise vlib.Infra("Obs-mode trace validation stopped at line %s (malformed trace?) see %s" % (
                    res["reached"], res["outfile"]))
            line = vlib.violated_line(res) or (res["reached"] or 1)
            bi, chunk, off = vlib.locate_trace(rows, line)
            name = res["violated"].split(":", 1)[1]
            name = re.sub(r"^T(?=[A-Z][a-z])", "", name)
            ev = rows[line - 1] if line - 1 < len(rows) else {}
            sig = _signature(name, ev)
            what = ("real ProviderSessionManager violates %s after schedule %s of scenario %s: pc=%s used=%s objs=%s smap=%s" % (
                name, [r["p"] for r in chunk[1:off]], json.dumps(behs[bi]["par"], sort_keys=True), ev.get("pc"), ev.get("used"),
                ev.get("objs"), ev.get("smap")))[:900]
            return {"sig": sig, "beh": behs[bi], "what": what}, None
        if hs.get("blocked"):
            raise vlib.Infra("drift: %d behaviours had a goroutine that did not reach its next yield point although the "
                             "spec said the step would not block (blocked on a real lock / channel)" % hs["blocked"])
        if res2 is not None:
            line = (res2["reached"] or 0) + 1
            if res2["violated"] != "postcondition":
                line = vlib.violated_line(res2) or line
            bi, chunk, off = vlib.locate_trace(rows, min(line, len(rows)))
            raise vlib.Infra("drift: the real code is not a refinement of ProviderSessions.tla at trace line %d (behaviour %d step %d: "
                             "%s; %s) - the model mis-predicted the code; see %s" % (
                                 line, bi, off, json.dumps(rows[min(line, len(rows)) - 1])[:300], res2["violated"], res2["outfile"]))
    chunks = vlib.split_traces(rows)
    labels, outs, retries, drained, skipped = set(), set(), 0, 0, 0
    for ch in chunks:
        prev = ch[0]
        for r in ch[1:]:
            if r["ev"] == "skip":
                skipped += 1
            if r.get("drain"):
                drained += 1
            if r["ev"] == "step":
                labels.add(r["pc"][r["p"]])
                if prev["pc"][r["p"]] == r["pc"][r["p"]] and r["pc"][r["p"]] in ("addcas", "subcas", "uloaded"):
                    retries += 1
            prev = r
        outs |= set(ch[-1]["out"].values())
    return None, {"behaviours": len(chunks), "events": len(rows), "labels": labels, "outcomes": outs,
                  "cas_retries": retries, "drained": drained, "skipped": skipped}


def _decide(ctx, behs, tag):
    bad, st = _replay(ctx, behs, tag)
    if bad:
        again, _ = _replay(ctx, [bad["beh"]], tag + "_repro", conf=False)
        if again is None:
            raise vlib.Infra("counter-example not reproduced: %s" % bad["sig"])
        ctx.violation(again["sig"], again["what"], {"behaviours": [bad["beh"]]})
        return None
    return st


def _lock_abstraction(ctx):
    """ProviderSessions.tla treats psm.lock critical sections as atomic. PsmLock.tla checks that no goroutine can block
    forever inside one (writer-preferring RWMutex; UpdateSessionCU after fixes/F27a). The probe replays PsmLock's
    counter-example of the unfixed code (recursive RLock vs. a writer) on the real manager through the usc_rlocked yield
    point. A real deadlock there is reported as drift of the assumption (never a verdict of C27)."""
    lk = vlib.tlc_mc(ctx, "PsmLock", "PsmLock_mc.cfg", timeout=300)
    if lk["violated"]:
        raise vlib.Infra("PsmLock.tla (lock abstraction) violates %s (see %s)" % (lk["violated"], lk["outfile"]))
    ctx.add_mc("PsmLock (manager lock: deadlock freedom, justifies atomic critical sections)", lk)
    binp = vlib.go_build("psmdeadlock")
    p = vlib.run_harness(binp, [], timeout=120)
    try:
        r = json.loads(p.stdout.strip().splitlines()[-1])
    except Exception:
        raise vlib.Infra("psmdeadlock printed no result: %s" % p.stdout[-300:])
    ctx.cov["psm_lock_probe"] = r
    if r.get("deadlock"):
        ctx.drift.append("assumption 'psm.lock critical sections are atomic' does not hold on this tree: UpdateSessionCU takes "
                         "psm.lock.RLock recursively and deadlocks the manager when a writer (UpdateEpoch) arrives in between "
                         "(harness/cmd/psmdeadlock; specs/PsmLock_nofixF27a.cfg; candidate fix fixes/F27a_update_session_cu_rlock.patch)")


def run(ctx):
    _need_hooks()
    mc = vlib.tlc_mc(ctx, "ProviderSessions", ctx.pick("ProviderSessions_mcq.cfg", "ProviderSessions_mc.cfg"),
                     timeout=ctx.pick(300, 1800), coverage=not ctx.quick)
    if mc["violated"]:
        raise vlib.Infra("design-level spec violates %s; spec must be repaired (see %s)" % (mc["violated"], mc["outfile"]))
    ctx.add_mc("ProviderSessions exhaustive (%s)" % ctx.pick("ScnQuick", "ScnAll"), mc)
    if not ctx.quick and mc.get("zero_actions"):
        raise vlib.Infra("vacuous: spec actions never taken: %s" % mc["zero_actions"])

    _lock_abstraction(ctx)

    sim = vlib.tlc_sim(ctx, "ProviderSessions", "ProviderSessions_sim.cfg", num=ctx.pick(1000, 3000), depth=60,
                       timeout=ctx.pick(600, 2400))
    behs = [_norm(b) for b in sim["behaviours"]]
    n_sim = len(behs)
    n_enum = 0
    if not ctx.quick:
        en = vlib.tlc_emit(ctx, "ProviderSessions", "ProviderSessions_enum.cfg", timeout=1800)
        eb = [_norm(b) for b in en["behaviours"]]
        n_enum = len(eb)
        ctx.cov["enumerated_schedules"] = n_enum
        ctx.add_mc("ProviderSessions all schedules of ScnEnum (history in the state)", dict(en, exhaustive=True))
        behs += eb
    seen, uniq = set(), []
    for b in behs:
        k = json.dumps(b, sort_keys=True)
        if k not in seen:
            seen.add(k)
            uniq.append(b)
    behs = uniq
    ctx.cov["evaluations"] = len(behs)
    ctx.cov["rule"] = ("schedule = scenario (relay/updater/epoch parameters) + sequence of process names chosen by TLC "
                       "(-simulate seed=%d over ScnAll%s); non-trivial = at least two processes interleave (some process is "
                       "scheduled, then another, then the first again); distinct by scenario+schedule" % (
                           ctx.seed, "" if ctx.quick else " + every schedule of ScnEnum"))

    def interleaved(s):
        last = {}
        for i, p in enumerate(s):
            if p in last and any(q != p for q in s[last[p] + 1:i]):
                return True
            last[p] = i
        return False
    ctx.cov["distinct_nontrivial"] = sum(1 for b in behs if interleaved(b["sched"]))
    ctx.sample(behs[0])
    ctx.assumptions += [
        "code between two yield points runs atomically in the replay (psm.lock / pswc.Lock critical sections, "
        "SafeAddMissingComputeUnits, the plain read-modify-write of CuSum inside the relay path)",
        "one consumer, one project, one pairing epoch per behaviour; bounded scenarios (specs/ProviderSessions.tla Scn*)",
        "yield points are the hooks of hooks/lavasession_provider.patch (build tag verif)",
    ]
    st = _decide(ctx, behs, "sched")
    if st is None:
        return
    ctx.cov["traces_validated_against_impl"] += st["behaviours"]
    ctx.cov["trace_events"] = st["events"]
    ctx.cov["cas_retries_replayed"] = st["cas_retries"]
    ctx.cov["labels"] = sorted(st["labels"])
    ctx.cov["outcomes"] = sorted(st["outcomes"])
    ctx.notes.append("simulated %d, enumerated %d, distinct %d schedules" % (n_sim, n_enum, len(behs)))
    miss = LABELS - st["labels"]
    misso = OUTCOMES - st["outcomes"]
    if miss or misso:
        raise vlib.Infra("vacuous: yield points %s / outcomes %s never reached in the replayed schedules" % (sorted(miss), sorted(misso)))
    if st["cas_retries"] == 0:
        raise vlib.Infra("vacuous: no CAS retry was ever replayed")
    if st["skipped"] or st["drained"]:
        raise vlib.Infra("drift: %d schedule steps addressed finished processes, %d steps were needed after the schedule ended" % (
            st["skipped"], st["drained"]))


def replay(ctx, path):
    _need_hooks()
    with open(path) as f:
        obj = json.load(f)
    bad, _ = _replay(ctx, obj["behaviours"], "replay", conf=False)
    if bad:
        ctx.violation(bad["sig"], "replayed schedule still fails: " + bad["what"], {"behaviours": [bad["beh"]]})
