"""C39 Providers serve only authentic, valid relay requests.  (DESIGN.md section 4, C39)

M: ProviderVerify.tla exhaustively: the valid next request of a consumer/session x single deviation
   (nil, epoch, provider, spec, lava chain, content hash, signature, parse, seen block, addon, CU low /
   high / over the limit, relay number) x signature intact / signer unknown x pairing outcome
   {valid, invalid, error} for the request's epoch x {valid, invalid} for the other valid epoch x request epoch
   {current, older but still valid}, from every reachable session state - invariants ServesOnlyAuthentic,
   AsksRequestEpoch, ServesOnlyInSync, RejectKeeps, ProofOnlyIfServed, ServedAccounting, NoLockLeak, CuBound.
G: TLC -simulate emits behaviours (signer, session, corruption kind, re-signed?, pairing outcome).
R: harness/cmd/provverify sends them to a real RPCProviderServer wired through ServeRPCRequests (real
   chain parser/router with a local node, real ProviderSessionManager, recording reward server, mock state
   tracker); the request is the valid next request relative to the provider's real session state.
V: TLC validates the recorded trace against Trace_ProviderVerify in Obs mode: the invariants are evaluated
   on the real states (this decides); a Conf pass (verdict and state predicted by the guard ladder) is
   drift only.
"""
import os
import vlib

LEVEL = "model_checking"

KINDS = ["none", "nildata", "nilsession", "sigflip", "sigempty", "data", "apiurl", "reqblock", "seenblock", "salt",
         "addon", "ext", "conntype", "apiiface", "metadata", "provider", "spec", "lava", "epochold", "hash",
         "cusumlow", "cusumhigh", "cuover", "relaynum", "unparsable", "badaddon", "negseen"]


def _validate(ctx, behs, tag, drift=True):
    binp = vlib.go_build("provverify")
    bpath = os.path.join(ctx.work, tag + "_behaviours.json")
    tpath = os.path.join(ctx.work, tag + "_trace.ndjson")
    vlib.write_json(bpath, behs)
    vlib.run_harness(binp, [bpath, tpath], timeout=1800, env={"VERIF_REPO": vlib.REPO})
    rows = vlib.read_ndjson(tpath)
    res = vlib.tlc_trace(ctx, "Trace_ProviderVerify", "Trace_ProviderVerify.cfg", tpath, env={"VERIF_CONF": "0"}, tag=tag)
    if not res["accepted"]:
        if res["violated"] == "postcondition":
            # Obs mode can only stop on a malformed line (panic flag, session id outside the model)
            line = (res["reached"] or 0) + 1
            ev = rows[line - 1] if line - 1 < len(rows) else {}
            if not ev.get("panic"):
                raise vlib.Infra("trace line %d not representable in Obs mode: %s" % (line, vlib.json.dumps(ev)[:300]))
            kind = "panic"
        else:
            line = vlib.violated_line(res) or (res["reached"] or 1)
            kind = res["violated"]
        bi, chunk, off = vlib.locate_trace(rows, line)
        beh = behs[bi] if 0 <= bi < len(behs) else None
        ev = rows[line - 1] if line - 1 < len(rows) else {}
        sig = "%s@%s:%s" % (kind, ev.get("kind"), "signed" if ev.get("who") in ("A", "B") else ev.get("who"))
        if kind == "invariant:AsksRequestEpoch":
            sig = "invariant:AsksRequestEpoch@epoch-%s" % ev.get("ep")   # independent of the corruption kind
        return {"sig": sig, "beh": beh, "line": off, "event": ev, "kind": kind}
    if drift:
        res2 = vlib.tlc_trace(ctx, "Trace_ProviderVerify", "Trace_ProviderVerify.cfg", tpath, env={"VERIF_CONF": "1"}, tag=tag + "_conf")
        if not res2["accepted"]:
            line = (res2["reached"] or 0) + 1
            ev = rows[line - 1] if line - 1 < len(rows) else {}
            ctx.drift.append("guard ladder of ProviderVerify.tla mis-predicts verdict/state at trace line %d (kind %s, who %s)" % (
                line, ev.get("kind"), ev.get("who")))
    ctx.cov["traces_validated_against_impl"] += len(behs)
    ctx.cov["trace_events"] = ctx.cov.get("trace_events", 0) + len(rows)
    return None


def _trace_coverage(ctx, path):
    rows = [r for r in vlib.read_ndjson(path) if r["ev"] == "relay"]
    per = {}
    for r in rows:
        k = per.setdefault(r["kind"], {"served": 0, "rejected": 0})
        k["served" if r["served"] else "rejected"] += 1
    ctx.cov["per_kind"] = per
    missing = [k for k in KINDS if k not in per]
    served = sum(v["served"] for v in per.values())
    rejected = sum(v["rejected"] for v in per.values())
    served_x = sum(1 for r in rows if r["served"] and r["who"] == "X")
    rej_pair = sum(1 for r in rows if not r["served"] and r["vpcalls"] > 0 and r["pairing"] != "valid")
    rej_after_session = sum(1 for r in rows if not r["served"] and r["kind"] in ("negseen", "badaddon", "cuover", "cusumlow", "relaynum", "unparsable")
                            and r["who"] in ("A", "B"))
    served_prev = sum(1 for r in rows if r["served"] and r["ep"] == "prev")
    differ_asked = sum(1 for r in rows if r["vpcalls"] > 0 and r["pairby"]["cur"] != r["pairby"]["prev"])
    differ_served = sum(1 for r in rows if r["served"] and r["vpcalls"] > 0 and r["pairby"]["cur"] != r["pairby"]["prev"])
    ctx.cov.update(served_in_older_valid_epoch=served_prev, pairing_asked_with_epochs_disagreeing=differ_asked,
                   served_with_epochs_disagreeing=differ_served)
    if served_prev < 10 or differ_asked < 20 or differ_served < 3:
        raise vlib.Infra("vacuous replay: older-epoch served=%d, pairing asked while epochs disagree=%d (served %d)" % (served_prev, differ_asked, differ_served))
    ctx.cov.update(served=served, rejected=rejected, served_unknown_signer_paired=served_x,
                   rejected_by_pairing=rej_pair, rejected_after_session_lookup=rej_after_session)
    if missing or served < 50 or rejected < 100 or served_x < 3 or rej_pair < 10 or rej_after_session < 10:
        raise vlib.Infra("vacuous replay: missing kinds %s served=%d rejected=%d servedX=%d rejPairing=%d rejLate=%d" % (
            missing, served, rejected, served_x, rej_pair, rej_after_session))


def _mc(ctx):
    mc = vlib.tlc_mc(ctx, "ProviderVerify", ctx.pick("ProviderVerify_mcq.cfg", "ProviderVerify_mc.cfg"),
                     timeout=ctx.pick(600, 3000))
    if mc["violated"]:
        raise vlib.Infra("design-level spec violates %s; spec must be repaired (see %s)" % (mc["violated"], mc["outfile"]))
    ctx.add_mc("ProviderVerify exhaustive", mc)


def run(ctx):
    if os.environ.get("VERIF_DEV_SKIP_MC") != "1":   # development knob (mutant runs): the exhaustive run does not depend on the repo
        _mc(ctx)
    sim = vlib.tlc_sim(ctx, "ProviderVerify", "ProviderVerify_sim.cfg", num=ctx.pick(120, 600), depth=15, timeout=900)
    behs = [b for b in sim["behaviours"] if b]
    ctx.cov["evaluations"] = sum(len(b) for b in behs)
    nontriv = {vlib.json.dumps(b) for b in behs if any(s["kind"] != "none" for s in b) and any(s["kind"] == "none" for s in b)}
    ctx.cov["distinct_nontrivial"] = len(nontriv)
    if len(nontriv) < ctx.pick(60, 300):
        raise vlib.Infra("too few non-trivial behaviours: %d" % len(nontriv))
    ctx.cov["rule"] = ("behaviours = TLC -simulate runs of ProviderVerify.tla GenNext (14 requests each; 1/3 valid, 2/3 one of 26 corruption kinds; "
                       "signed by the consumer or tampered after signing; pairing outcome valid/invalid/error); evaluations = requests sent; "
                       "non-trivial = behaviour contains a valid and a corrupted request; distinct by full request list")
    ctx.sample(behs[0][:4])
    ctx.assumptions += ["one spec (ETH1 jsonrpc, eth_blockNumber, 10 CU), two valid epochs (current 100, older 90; blocked height 80) whose pairing answers may differ, max CU 100, allowed missing CU threshold 0",
                        "requests are sequential (concurrency of the session layer is C27)",
                        "used CU of a consumer is read by reflection from the session manager; the lock flag through VerifyLock()",
                        "signature forgery is out of scope: a request whose signed fields were altered recovers a different signer, whose pairing the chain decides",
                        "cache, consistency wait, subscriptions, resource limiter and data-reliability paths are not exercised"]
    bad = _validate(ctx, behs, "sim")
    if bad:
        again = _validate(ctx, [bad["beh"]], "repro", drift=False)
        if again is None:
            raise vlib.Infra("counter-example not reproduced: %s" % bad["sig"])
        ctx.violation(again["sig"], "real provider server violates %s at request %d: %s" % (
            again["kind"], again["line"], vlib.json.dumps(again["event"])[:900]), {"behaviours": [bad["beh"]]})
        return
    _trace_coverage(ctx, os.path.join(ctx.work, "sim_trace.ndjson"))


def replay(ctx, path):
    with open(path) as f:
        obj = vlib.json.load(f)
    bad = _validate(ctx, obj["behaviours"], "replay", drift=False)
    if bad:
        ctx.violation(bad["sig"], "replayed behaviour still fails: %s" % vlib.json.dumps(bad["event"])[:900],
                      {"behaviours": [bad["beh"]]})
