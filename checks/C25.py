"""C25 Relay signatures bind every signed field; verification is read-only.  (DESIGN.md section 4, C25)

M: Signing.tla (Sign / Tamper(one field) / Verify over abstract field values, the signed-field tables of
   RelaySession and RelayExchange, the delimiter-free encoding of the reply metadata) - TLC checks
   TypeOK, BindsOther and the action property ReadOnly for the patched Verify; sanity runs: the as-found
   Verify must violate ReadOnly, and BindsReplyMd must be refuted (the metadata encoding is ambiguous).
G: TLC (Emit_Signing) writes one vector per (kind, base message, single-field mutation); the two metadata
   fields get every list of <= 2 entries over {"", a, b}^2.
R: harness/cmd/signing: real secp256k1 keys; sessions signed with sigs.Sign and checked with
   sigs.ExtractSignerAddress, replies signed with lavaprotocol.SignRelayResponse and checked with
   lavaprotocol.VerifyRelayReply (twice); request and reply serialised and the whole buffers backing reply.Data /
   request data (layouts exact | spare capacity with a sentinel tail | request data sharing the buffer) compared
   before/after every call.
V: TLC (Trace_Signing) judges every line: real verdict vs the verdict the property demands, read-only.
"""
import json
import os
import vlib

LEVEL = "model_checking"


def _what(c):
    if c.startswith("accepts-tampered:reply.metadata:"):
        return ("VerifyRelayReply accepts a reply whose metadata list differs from the signed one (%s): the entries are signed as a "
                "concatenation of proto encodings without delimiters" % c.rsplit(":", 1)[1])
    if c.startswith("accepts-tampered:"):
        return "verification passes although signed field %s was changed after signing" % c.split(":", 1)[1]
    if c.startswith("rejects-untampered:"):
        return "verification fails although only the unsigned field %s (or nothing) was changed" % c.split(":", 1)[1]
    if c.startswith("verify-modifies:") and "salt" in c:
        return ("verifying a reply modifies the caller's request: %s (RelayExchange.DataToSign clears RelayData.Salt through the "
                "shared pointer)" % c.split(":", 1)[1])
    if c.startswith("verify-modifies:"):
        return ("verifying a reply writes to memory it only checks: %s (reply.buffer-tail = bytes behind reply.Data in its backing "
                "buffer; req.data = request data sharing that buffer)" % c.split(":", 1)[1])
    if c.startswith("verdict-changes-on-recheck:"):
        return "verifying the same, untouched objects a second time gives a different verdict (layout %s)" % c.split(":", 1)[1]
    return c


def _judge(ctx, vectors, tag):
    binp = vlib.go_build("signing")
    vpath = os.path.join(ctx.work, tag + "_vectors.json")
    tpath = os.path.join(ctx.work, tag + "_trace.ndjson")
    vlib.write_json(vpath, vectors)
    vlib.run_harness(binp, [vpath, tpath])
    rows = vlib.read_ndjson(tpath)
    if len(rows) != len(vectors):
        raise vlib.Infra("driver wrote %d lines for %d vectors" % (len(rows), len(vectors)))
    res = vlib.tlc_mc(ctx, "Trace_Signing", "Trace_Signing.cfg", env={"VERIF_TRACE": tpath}, tag=tag + "_trace", timeout=900)
    if res["violated"]:
        raise vlib.Infra("trace judging stopped: %s (see %s)" % (res["violated"], res["outfile"]))
    hwm = [int(x) for x in vlib.re.findall(r'<<"HWM", (\d+)>>', res["out"])]
    if not hwm or max(hwm) != len(rows):
        raise vlib.Infra("TLC judged %s of %d lines (see %s)" % (hwm, len(rows), res["outfile"]))
    bad = {b["id"]: sorted(b["classes"]) for b in vlib.parse_emitted(res["out"], "BAD")}
    return rows, bad


def _candidates(ctx, bad):
    cand = {}
    notes = {}
    for i in sorted(bad):
        for c in bad[i]:
            if c.startswith("note:"):
                notes[c] = notes.get(c, 0) + 1
            else:
                cand.setdefault(c, i)
    for c, n in sorted(notes.items()):
        ctx.notes.append("%s on %d lines (signing, not checking: outside the statement of C25; same root cause as F14)" % (c[5:], n))
    return cand


def run(ctx):
    mc = vlib.tlc_mc(ctx, "Signing", "Signing_mc.cfg", timeout=600)
    if mc["violated"]:
        raise vlib.Infra("design-level Signing (patched Verify) violates %s (see %s)" % (mc["violated"], mc["outfile"]))
    ctx.add_mc("Signing_mc.cfg", mc)
    a = vlib.tlc_mc(ctx, "Signing", "Signing_mc_asfound.cfg", timeout=600)
    if a["violated"] != "action:ReadOnly":
        raise vlib.Infra("sanity: as-found Verify must violate ReadOnly, got %s" % a["violated"])
    b = vlib.tlc_mc(ctx, "Signing", "Signing_mc_md.cfg", timeout=600)
    if b["violated"] != "invariant:BindsReplyMd":
        raise vlib.Infra("sanity: BindsReplyMd must be refuted (ambiguous metadata encoding), got %s" % b["violated"])
    c = vlib.tlc_mc(ctx, "Signing", "Signing_mc_inplace.cfg", timeout=600)
    if c["violated"] != "action:ReadOnly":
        raise vlib.Infra("sanity: in-place DataToSign must violate ReadOnly, got %s" % c["violated"])
    d = vlib.tlc_mc(ctx, "Signing", "Signing_mc_inplace2.cfg", timeout=600)
    if d["violated"] != "invariant:Stable":
        raise vlib.Infra("sanity: in-place DataToSign must violate Stable (shared buffer), got %s" % d["violated"])
    ctx.notes.append("design level: AsFound=TRUE violates ReadOnly (F14); InPlace=TRUE violates ReadOnly and Stable; "
                     "BindsReplyMd refuted (reply metadata encoding not injective)")

    opath = os.path.join(ctx.work, "vectors.ndjson")
    vlib.tlc_mc(ctx, "Emit_Signing", "Emit_Signing.cfg", workers=1, env={"VERIF_OUT": opath}, timeout=600, tag="emit")
    vectors = vlib.read_ndjson(opath)
    if len(vectors) < 500:
        raise vlib.Infra("emit run produced only %d vectors" % len(vectors))
    rows, bad = _judge(ctx, vectors, "all")
    # non-vacuity: both kinds, both verdicts, every field mutated, a salted request verified
    fields = {(r["kind"], r["field"]) for r in rows}
    n_ok = sum(1 for r in rows if r["verdict"] == "ok")
    n_rej = len(rows) - n_ok
    salted = sum(1 for r in rows if r["kind"] == "reply" and r["base"] == 1 and r["field"] != "req.salt")
    lay = {y: sum(1 for r in rows if r["layout"] == y and r["verdict"] == "ok") for y in ("exact", "spare", "shared")}
    rechecked = sum(1 for r in rows if r["verdict2"] in ("ok", "reject"))
    if len(fields) < 38 or n_ok < 50 or n_rej < 200 or salted < 100 or min(lay.values()) < 20 or rechecked != len(rows):
        raise vlib.Infra("vacuous binding: fields=%d ok=%d reject=%d salted=%d accepted-per-layout=%s rechecked=%d" % (
            len(fields), n_ok, n_rej, salted, lay, rechecked))
    ctx.cov["accepted_per_layout"] = lay
    ctx.cov["evaluations"] = len(rows)
    ctx.cov["distinct_nontrivial"] = sum(1 for r in rows if r["val"] != r["base"])
    ctx.cov["real_verdicts"] = {"ok": n_ok, "reject": n_rej, "fields": len(fields)}
    ctx.cov["rule"] = ("one evaluation = one really signed message (2 base messages per kind), one single-field mutation, one real "
                       "verification; scalar fields: 3 table values each (incl. empty and quote-bearing strings, nil/other nested "
                       "reports, corrupted/truncated signature); metadata fields: all 91 lists of <= 2 entries over {'',a,b}^2; "
                       "non-trivial = mutation value differs from the base index")
    ctx.cov["traces_validated_against_impl"] += len(rows)
    ctx.sample(vectors[len(vectors) // 3])
    ctx.sample(vectors[-1])
    ctx.assumptions += ["ECDSA/SHA-256 unforgeability assumed (a signature is modelled as the signed view)",
                        "single-field mutations only (the statement's quantifier); requested block is concrete (no LATEST/EARLIEST "
                        "replacement by UpdateRequestedBlock)",
                        "proto text form (String()) is injective per field - tested on the table values, not modelled",
                        "memory layouts: reply.Data exactly sized / window of a buffer with 8 KiB sentinel-filled spare capacity / "
                        "request data placed right behind it in the same buffer; concurrent use of one buffer is not exercised"]
    cand = _candidates(ctx, bad)
    if not cand:
        return
    sigs_ = sorted(cand)
    vecs = [vectors[cand[s]] for s in sigs_]
    rows2, bad2 = _judge(ctx, vecs, "repro")
    for k, s in enumerate(sigs_):
        if s not in bad2.get(k, []):
            raise vlib.Infra("counter-example not reproduced: %s" % s)
        ctx.violation(s, "%s; vector %s -> %s" % (_what(s), json.dumps(vecs[k]), json.dumps(rows2[k])[:300]),
                      {"vectors": [vecs[k]], "signature": s})


def replay(ctx, path):
    with open(path) as f:
        obj = json.load(f)
    rows, bad = _judge(ctx, obj["vectors"], "replay")
    for s, i in sorted(_candidates(ctx, bad).items()):
        ctx.violation(s, "replayed vector still fails: %s" % _what(s), {"vectors": [obj["vectors"][i]], "signature": s})
