"""C12 Subscriptions live exactly as long as paid for.  (DESIGN.md section 4, C12)

M: specs/Subscription.tla exhaustively (CuBounded, LeftPositive, NoPanic incl. the QuoRaw(0) of DESIGN F4);
   specs/NextMonth.tla = transcription of utils.NextMonth, compared with the real function for every day of
   2024-2025 x 3 times of day (inputs enumerated by TLC, outputs validated by TLC).
G: TLC -simulate behaviours of Subscription.tla (buy new/extend/upgrade, advance purchase new/replace,
   auto-renew toggles by both buyers, plan add/delete, block/epoch/stale advances, month ticks), started on
   calendar days 1, 28, 29, 30, 31.
R: harness/t/subs on a real chain.
V: Trace_Subscription (Obs): ghost `owed` advanced by the entitlement rule; after every step
   subscription present (next-epoch view) <=> owed > 0 and DurationLeft = owed; 0 <= MonthCuLeft <= MonthCuTotal,
   reset on every month tick; projects exist iff the subscription does; month timer armed at
   utils.NextMonth(block time); creator charged exactly price*months*(discount) / the advance-purchase
   difference / one plan price on auto-renewal and nobody else is charged; failed txs change nothing; no
   panic.  Drift pass: the spec's one-step prediction from the real pre-state vs the real post-state.
"""
import os
import sys

sys.path.insert(0, os.path.dirname(os.path.abspath(__file__)))
import subs_lib as sl  # noqa: E402
import vlib  # noqa: E402

LEVEL = "model_checking"
CFG = "Trace_Subscription_C12.cfg"
DAYS = [0, 28, 29, 30, 27, 0, 29, 30]


def _kind(chunk, off):
    ev = chunk[off - 1]
    prev = chunk[off - 2] if off >= 2 else ev
    if ev["ev"] == "buy":
        ps = prev["cs"][ev["c"]]["subn"]
        return "buy:" + ("fail" if not ev["ok"] else "new" if not ps["on"] else "upgrade" if ps["pi"] != ev["p"] else "extend")
    if ev["ev"] == "adv":
        pc = prev["cs"][ev["c"]]["subn"]
        if not ev["ok"]:
            return "adv:fail"
        return "adv:" + ("replace" if pc["fut"]["on"] else "new") + (":after-upgrade-same-epoch" if pc["blk"] > prev["h"] else "")
    if ev["ev"] == "month":
        ks = sorted({sl.month_kind(prev, ev, c) for c in sl.CONS if sl.fired(prev, ev, c)})
        return "month:" + "+".join(ks)
    return ev["ev"]


def _check(ctx, behs, days, tag, drift=True):
    tpath, rows = sl.drive(ctx, behs, tag, days=days)
    res = sl.validate(ctx, tpath, CFG, tag)
    if not res["accepted"]:
        f = sl.failing(res, rows, behs)
        f["day"] = days[f["bi"]]
        f["sig"] = "%s@%s" % (f["inv"], _kind(f["chunk"], f["off"]))
        return f, rows
    if drift:
        r2 = sl.validate(ctx, tpath, "Trace_Subscription_drift.cfg", tag + "_drift", drift=True)
        dl = sl.drift_lines(r2)
        if not r2["accepted"]:
            ctx.drift.append("%s: drift pass stopped (%s) at line %s" % (tag, r2["violated"], vlib.violated_line(r2)))
        if dl:
            n = len([r for r in rows if r["ev"] != "reset"])
            ctx.drift.append("%s: spec prediction differs from the chain on %d%s of %d steps, first lines %s (%s)" % (
                tag, len(dl), "+" if len(dl) >= 50 else "", n, dl[:5], [rows[i - 1]["ev"] for i in dl[:5]]))
    return None, rows


def _report(ctx, f):
    ev = f["event"]
    subs = {c: {k: ev["cs"][c]["subn"][k] for k in ("on", "left", "cuL", "cuT")} | {"fut": ev["cs"][c]["subn"]["fut"]["d"], "nproj": ev["cs"][c]["nproj"]}
            for c in sl.CONS}
    what = ("%s violated at step %d (%s %s, start day offset %d): next-epoch view %s bal=%s ok=%s err=%s panic=%s %s" % (
        f["inv"], f["off"] - 1, ev["ev"], ev.get("c", ""), f["day"], subs, ev["bal"], ev["ok"], ev["err"], ev["panic"], ev["pmsg"][:160]))
    ctx.violation(f["sig"], what, {"behaviours": [f["beh"]], "days": [f["day"]]})


def _next_month(ctx):
    em = vlib.tlc_emit(ctx, "NextMonth", "NextMonth_emit.cfg", tag="nm_emit")
    vecs = em["behaviours"]
    ipath = os.path.join(ctx.work, "nm_in.json")
    opath = os.path.join(ctx.work, "nm_trace.ndjson")
    vlib.write_json(ipath, vecs)
    vlib.run_test_harness(vlib.go_test_build(sl.DRIVER), {"VERIF_IN": ipath, "VERIF_OUT": opath}, test="TestNextMonth")
    res = vlib.tlc_trace(ctx, "Trace_NextMonth", "Trace_NextMonth.cfg", opath, tag="nm_trace")
    rows = vlib.read_ndjson(opath)
    if len(rows) != len(vecs) or len(vecs) < 2000:
        raise vlib.Infra("NextMonth vectors: emitted %d, driven %d" % (len(vecs), len(rows)))
    ctx.cov["nextmonth_vectors"] = len(vecs)
    if not res["accepted"]:
        line = vlib.violated_line(res) or (res["reached"] or 1)
        r = rows[line - 1]
        # single-vector re-execution
        vlib.write_json(ipath, [{k: r[k] for k in "ymds"}])
        vlib.run_test_harness(vlib.go_test_build(sl.DRIVER), {"VERIF_IN": ipath, "VERIF_OUT": opath}, test="TestNextMonth")
        again = vlib.tlc_trace(ctx, "Trace_NextMonth", "Trace_NextMonth.cfg", opath, tag="nm_repro")
        if again["accepted"]:
            raise vlib.Infra("NextMonth disagreement not reproduced")
        ctx.violation("NextMonth@day%d" % min(r["d"], 29), "utils.NextMonth(%s) = %s differs from the transcription" % (
            {k: r[k] for k in "ymds"}, {k: r[k] for k in ("ry", "rm", "rd", "rs", "days")}), {"nextmonth": [r]})
        return False
    return True


def run(ctx):
    ctx.assumptions += [
        "two consumers (c1 rich, c2 420 tokens) and a poor third-party buyer who can all be drained, plans p1 < p2, months in {1, 2, 12}",
        "an epoch is shorter than a month; a month tick is one block whose time is exactly the month expiry",
        "NextMonth compared on all days of 2024-2025 at 00:00:00, 01:01:01, 23:59:59",
    ]
    res, cand = sl.mc(ctx, ctx.pick("Subscription_mcq.cfg", "Subscription_mc.cfg"), timeout=ctx.pick(600, 2400))
    cands = []
    if cand:
        ctx.notes.append("design-level %s: replayed as candidate" % res["violated"])
        cands.append(cand)
    else:
        ctx.add_mc("Subscription (all txs, 2 plans, 2 buyers)", res)
    # reachability query: TLC constructs the shortest history with an advance purchase accepted while the upgraded
    # subscription version still waits for the next epoch; continued over the epoch boundary and two month ticks
    r2, c2 = sl.mc(ctx, "Subscription_cov2.cfg", timeout=600)
    if not c2:
        raise vlib.Infra("coverage target 'advance purchase after an upgrade in the same epoch' not reachable in the model")
    adv = lambda a, n: {"a": a, "cr": "", "c": "", "p": "", "d": 0, "f": False, "n": n}  # noqa: E731
    cands.append(c2 + [adv("epoch", 20), adv("month", 1), adv("epoch", 19), adv("month", 1)])   # (an epoch is shorter than a month)
    if not _next_month(ctx):
        return
    n = ctx.pick(60, 400)
    need = {"buy:new": 30, "buy:extend": 10, "buy:upgrade": 1, "adv:new": 10, "adv:replace": 2, "auto:ok": 10,
            "month:continue": 10, "month:renew": 5, "month:expire": 5, "month:activate-future": 3, "buy:fail": 5,
            "adv:after-upgrade-same-epoch": 2, "month:renew-failed": 2, "drain:ok": 5}
    # (the upgrade and the advance purchase after it are guaranteed by the TLC-constructed candidate; more come at random)
    st = sl.collections.Counter()
    behs, nrows = [], 0
    for rnd in range(4):     # top-up rounds until every action kind is covered
        sd = ctx.seed + 7919 * rnd
        new = (sl.sim(ctx, "Subscription_sim.cfg", num=n * 2 // 3, depth=14, tag="sim%d" % rnd, seed=sd)[:ctx.pick(170, 1000)]
               + sl.sim(ctx, "Subscription_simf.cfg", num=n // 3, depth=14, tag="simf%d" % rnd, seed=sd)[:ctx.pick(90, 500)])
        if rnd == 0:
            new = cands + new
            ctx.sample(new[0])
        days = [DAYS[i % len(DAYS)] for i in range(len(new))]
        finding, rows = _check(ctx, new, days, "all%d" % rnd)
        if finding is not None:
            again, _ = _check(ctx, [finding["beh"]], [finding["day"]], "repro", drift=False)
            if again is None:
                raise vlib.Infra("counter-example not reproduced: %s" % finding["sig"])
            _report(ctx, again)
            return
        st.update(sl.stats(rows))
        behs += new
        nrows += len(rows)
        miss = {k: (st.get(k, 0), v) for k, v in need.items() if st.get(k, 0) < v}
        if not miss:
            break
    ctx.cov["evaluations"] = len(behs)
    ctx.cov["traces_validated_against_impl"] += len(behs)
    ctx.cov["trace_events"] = nrows
    ctx.cov["stats"] = dict(st)
    if miss:
        raise vlib.Infra("vacuous coverage after 4 rounds (have, need): %s" % miss)
    ctx.cov["distinct_nontrivial"] = len({vlib.json.dumps(b) for b in behs
                                          if sum(1 for s in b if s["a"] == "month") >= 2 and any(s["a"] == "buy" for s in b)})
    ctx.cov["rule"] = ("behaviours = TLC -simulate runs of Subscription.tla (14 steps) x start day; non-trivial = at least one "
                       "buy and two month ticks; distinct by full action list")


def replay(ctx, path):
    with open(path) as f:
        obj = vlib.json.load(f)
    if "nextmonth" in obj:
        ipath = os.path.join(ctx.work, "nm_in.json")
        opath = os.path.join(ctx.work, "nm_trace.ndjson")
        vlib.write_json(ipath, [{k: r[k] for k in "ymds"} for r in obj["nextmonth"]])
        vlib.run_test_harness(vlib.go_test_build(sl.DRIVER), {"VERIF_IN": ipath, "VERIF_OUT": opath}, test="TestNextMonth")
        res = vlib.tlc_trace(ctx, "Trace_NextMonth", "Trace_NextMonth.cfg", opath, tag="nm_replay")
        if not res["accepted"]:
            ctx.violation("NextMonth@replay", "utils.NextMonth still differs from the transcription", obj)
        return
    finding, _ = _check(ctx, obj["behaviours"], obj.get("days") or [0] * len(obj["behaviours"]), "replay", drift=False)
    if finding:
        _report(ctx, finding)
