"""C17 Developer keys map to one project and usage is charged once.  (DESIGN.md section 4, C17)

M: Projects.tla exhaustively (2 subscriptions, 4 projects, 4 keys; create/delete project, add/delete
   admin+developer keys effective at this/next epoch, relay payments, epochs): C17_Keys (at every block
   of the memory window and the next epoch a developer key is listed by at most one existing project
   and the registry names exactly that project), C17_Charge (an accepted relay adds its CU to exactly
   one project, in every version from the relay's epoch on), C17_Resolve (the charged project is the one
   the registry named at the relay's epoch).
G: TLC -simulate on Projects.tla (GenNext).
R: harness/t/payments (variant "proj"): real project/subscription transactions and real signed relays;
   after every step GetProjectDeveloperData(key, b) for all keys and GetProjectForBlock(project, b) for all
   projects at every epoch start b of the memory window and the next epoch.
V: Obs mode decides (KeysOK / ChargeOK / ResolveOK / failed tx changes nothing, evaluated by TLC on the
   real projections); Conf mode: drift only.
"""
import os
import importlib.util
import vlib

_spec = importlib.util.spec_from_file_location("_pay", os.path.join(os.path.dirname(os.path.abspath(__file__)), "_pay.py"))
_pay = importlib.util.module_from_spec(_spec)
_spec.loader.exec_module(_pay)

LEVEL = "model_checking"
CFG = "Trace_Projects.cfg"


def _obs(ctx, tpath, tag):
    return vlib.tlc_trace(ctx, "Trace_Projects", CFG, tpath, tag=tag, timeout=1800, env={"VERIF_MODE": "obs"})


def classify(violated, ev, prev):
    name = (violated or "").split(":")[-1]
    if name == "C17_TKeys":
        # which key is owned twice / dangling?
        st = ev.get("st", {})
        for i, b in enumerate(st.get("window", [])):
            owners = {}
            for p in st["projects"]:
                if p["b"] == b:
                    for k in p["dev"]:
                        owners.setdefault(k, []).append(p["p"])
            for j, k in enumerate(["c1", "c2", "k1", "k2", "k3"]):
                o = owners.get(k, [])
                m = st["devmap"][i][j]
                if len(o) > 1:
                    return "key-in-two-projects@" + ev.get("ev", "?")
                if m != "-" and o != [m]:
                    return "key-resolves-to-missing-project@" + ev.get("ev", "?")
                if o and m == "-":
                    return "project-key-not-registered@" + ev.get("ev", "?")
        return "keys-inconsistent@" + ev.get("ev", "?")
    if name == "C17_TChargeProp":
        return "charge-not-exactly-once"
    if name == "C17_TResolveProp":
        return "charged-other-project"
    if name == "C17_TFailProp":
        return "failed-tx-changed-projects@" + ev.get("ev", "?")
    return name


def _run_behs(ctx, behs, tag):
    tpath, rows = _pay.replay(ctx, behs, tag, keys=True, variant="proj")
    return tpath, rows, _obs(ctx, tpath, tag + "_obs")


def _fail(ctx, res, behs, rows):
    line = _pay.failing_line(res)
    bi, chunk, off = vlib.locate_trace(rows, line)
    if not (0 <= bi < len(behs)):
        raise vlib.Infra("cannot locate failing behaviour (line %s)" % line)
    return behs[bi]


def run(ctx):
    if not os.environ.get("VERIF_PAY_SKIP_MC"):
        mc = vlib.tlc_mc(ctx, "Projects", ctx.pick("Projects_mcq.cfg", "Projects_mc.cfg"), timeout=ctx.pick(900, 3600))
        if mc["violated"]:
            raise vlib.Infra("design-level spec violates %s; candidate to be replayed by hand (see %s)" % (mc["violated"], mc["outfile"]))
        ctx.add_mc("Projects exhaustive", mc)
    sim = vlib.tlc_sim(ctx, "Projects", "Projects_sim.cfg", num=ctx.pick(60, 500), depth=13, timeout=1800)
    behs = sim["behaviours"]
    ctx.cov["evaluations"] = len(behs)
    ctx.sample(behs[0])
    tpath, rows, res = _run_behs(ctx, behs, "c17")
    if not res["accepted"]:
        if res["violated"] == "postcondition":
            raise vlib.Infra("Obs-mode trace validation stopped at line %s (see %s)" % (res["reached"], res["outfile"]))
        beh = _fail(ctx, res, behs, rows)
        p1, r1, again = _run_behs(ctx, [beh], "c17_repro")
        if again["accepted"]:
            raise vlib.Infra("counter-example not reproduced (%s)" % res["violated"])
        l1 = _pay.failing_line(again)
        ev = r1[l1 - 1] if 0 < l1 <= len(r1) else {}
        ctx.violation(classify(again["violated"], ev, r1[l1 - 2] if l1 >= 2 else {}),
                      "%s violated on the real chain at step %d: %s" % (again["violated"], l1 - 1, vlib.json.dumps(
                          {k: ev.get(k) for k in ("ev", "v", "by", "key", "kd", "sub", "ok")})[:400]),
                      {"behaviours": [beh]})
        return
    ctx.cov["traces_validated_against_impl"] += len(behs)
    ctx.cov["trace_events"] = len(rows)
    cov = {}
    moved = 0
    for ch in vlib.split_traces(rows):
        first = ch[0]["st"]["devmap"][0]
        for r in ch:
            k = r["ev"] + ("_ok" if r["ok"] else "_fail")
            cov[k] = cov.get(k, 0) + 1
        lastdm = ch[-1]["st"]["devmap"][-1]
        moved += sum(1 for a, b in zip(first, lastdm) if a != b)
    cov["keys_changed_owner"] = moved
    ctx.cov["driver"] = cov
    ctx.cov["distinct_nontrivial"] = len({vlib.json.dumps(b) for b, ch in zip(behs, vlib.split_traces(rows))
                                          if sum(1 for r in ch if r["ok"] and r["ev"] in ("addkey", "delkey", "addproj", "delproj")) >= 2})
    ctx.cov["rule"] = ("behaviours = TLC -simulate runs of Projects.tla GenNext (12 steps); non-trivial = at least two committed "
                       "project/key transactions; distinct by full action list")
    need = ["addkey_ok", "delkey_ok", "addproj_ok", "delproj_ok", "pay_ok", "pay_fail", "epoch_ok", "addkey_fail"]
    if any(cov.get(k, 0) < 3 for k in need) or moved < 5:
        raise vlib.Infra("vacuous coverage: %s" % cov)
    r2 = vlib.tlc_trace(ctx, "Trace_Projects", "Trace_Projects_conf.cfg", tpath, tag="c17_conf", timeout=1800, env={"VERIF_MODE": "conf"})
    if not r2["accepted"]:
        ctx.drift.append("real chain is not a behaviour of Projects.tla from trace line %s on (%d lines)" % ((r2["reached"] or 0) + 1, len(rows)))
    ctx.cov["conforms"] = bool(r2["accepted"])
    ctx.assumptions += [
        "world fixed by harness/t/payments variant 'proj' (2 live subscriptions, 4+2 projects, 5 keys)",
        "no subscription expiry / month roll-over inside a behaviour; fixation staleness not modelled (queries stay inside the memory window)",
        "transactions are atomic as under baseapp (chainx.Tx)",
    ]


def replay(ctx, path):
    with open(path) as f:
        obj = vlib.json.load(f)
    p1, r1, res = _run_behs(ctx, obj["behaviours"], "replay")
    if not res["accepted"]:
        if res["violated"] == "postcondition":
            raise vlib.Infra("replay trace not validated to the end")
        l1 = _pay.failing_line(res)
        ev = r1[l1 - 1] if 0 < l1 <= len(r1) else {}
        ctx.violation(classify(res["violated"], ev, {}), "replayed behaviour still fails %s" % res["violated"], {"behaviours": obj["behaviours"]})
    else:
        ctx.cov["traces_validated_against_impl"] += len(obj["behaviours"])
