"""C33 Cross-validated responses reflect an agreeing quorum.  (DESIGN.md section 4, C33)

M: Quorum.tla exhaustively: every arrival order of <= 4 responses over {d1,d2,d3,empty,nodeErr,protoErr},
   every threshold 1..n, with and without draining the queue - invariants QuorumOK (oracle over the
   responses consumed at the decision), EarlyExitOK, AllConsumedOK.
G: the same initial states are emitted as cases (tlc_emit).
R: harness/cmd/quorum feeds each case to a fresh real RelayProcessor in cross-validation mode
   (SetResponse in order, WaitForResults, optional NodeResults drain, ProcessingResult).
V: TLC validates the recorded cases against Trace_Quorum.tla: Obs invariants over the *logged consumed
   responses* decide; equality with the model's prediction (Conf) is reported as drift only.
"""
import os
import random
import vlib

LEVEL = "model_checking"
SIGS = {"invariant:ObsQuorum": "answer-not-an-agreeing-largest-quorum",
        "invariant:ObsCount": "reported-agreement-count-wrong",
        "invariant:ObsEarly": "early-exit-quorum-denied-by-ProcessingResult",
        "invariant:ObsDrained": "drain-left-responses-unconsumed"}


def _run_cases(ctx, cases, tag, conf=False):
    binp = vlib.go_build("quorum")
    cpath = os.path.join(ctx.work, tag + "_cases.json")
    tpath = os.path.join(ctx.work, tag + "_trace.ndjson")
    vlib.write_json(cpath, cases)
    vlib.run_harness(binp, [cpath, tpath], env={"VERIF_REPO": vlib.REPO})
    rows = vlib.read_ndjson(tpath)
    if len(rows) != len(cases):
        raise vlib.Infra("quorum driver answered %d of %d cases" % (len(rows), len(cases)))
    res = vlib.tlc_trace(ctx, "Trace_Quorum", "Trace_Quorum.cfg", tpath, env={"VERIF_CONF": "1" if conf else "0"},
                         tag=tag + ("_conf" if conf else "_obs"))
    return rows, res


def _bad(rows, res):
    if res["accepted"]:
        return None
    if res["violated"] == "postcondition" or not str(res["violated"]).startswith("invariant:"):
        raise vlib.Infra("trace validation stopped unexpectedly: %s (see %s)" % (res["violated"], res["outfile"]))
    line = vlib.violated_line(res)
    if line is None or line < 1:
        raise vlib.Infra("cannot locate violating case (see %s)" % res["outfile"])
    return line - 1, res["violated"]


def run(ctx):
    mc = vlib.tlc_mc(ctx, "Quorum", ctx.pick("Quorum_mcq.cfg", "Quorum_mc.cfg"), timeout=ctx.pick(600, 1800))
    if mc["violated"]:
        raise vlib.Infra("design-level spec violates %s (see %s)" % (mc["violated"], mc["outfile"]))
    ctx.add_mc("Quorum exhaustive", mc)
    em = vlib.tlc_emit(ctx, "Quorum", "Quorum_emit.cfg", timeout=900)
    allc = em["behaviours"]
    small = [c for c in allc if len(c["order"]) <= 3]
    big = [c for c in allc if len(c["order"]) == 4]
    if ctx.quick:
        rnd = random.Random(ctx.seed)
        rnd.shuffle(big)
        big = big[:400]
    cases = small + big
    ctx.cov["evaluations"] = len(cases)
    ctx.cov["rule"] = ("case = (arrival order of 1..4 responses over {d1,d2,d3,empty,nodeErr,protoErr}, threshold 1..n, drain flag) "
                       "emitted by TLC from Quorum.tla Init; quick: all orders of length <= 3 and 400 seeded orders of length 4, "
                       "thorough: all 11820; non-trivial = at least two successful responses")
    ctx.cov["distinct_nontrivial"] = len({vlib.json.dumps(c, sort_keys=True) for c in cases
                                          if sum(1 for k in c["order"] if k in ("d1", "d2", "d3", "empty")) >= 2})
    ctx.sample(cases[len(cases) // 2])
    rows, res = _run_cases(ctx, cases, "all")
    kinds = {r["res"] for r in rows}
    if not ({"error", "empty", "d1"} <= kinds) or not any(r["early"] for r in rows) or not any(r["drain"] and r["cnt"] == 4 for r in rows):
        raise vlib.Infra("vacuous: answers seen %s" % sorted(kinds))
    ctx.cov["answers_seen"] = {k: sum(1 for r in rows if r["res"] == k) for k in sorted(kinds)}
    ctx.cov["early_exits"] = sum(1 for r in rows if r["early"])
    ctx.cov["traces_validated_against_impl"] += len(cases)
    ctx.assumptions += ["responses are queued before WaitForResults runs (arrival order = queue order); the oracle is over the "
                        "responses the processor had consumed at the decision (DESIGN 4 C33)",
                        "payloads d1..d3 are three fixed distinct JSON bodies; sha256 collisions are not considered",
                        "LAV1 REST parser decides what a node error is (status 500 body)"]
    b = _bad(rows, res)
    if b:
        idx, inv = b
        rows2, res2 = _run_cases(ctx, [cases[idx]], "repro")
        b2 = _bad(rows2, res2)
        if not b2:
            raise vlib.Infra("counter-example not reproduced: case %s" % vlib.json.dumps(cases[idx]))
        r = rows2[0]
        ctx.violation("%s@res=%s" % (SIGS.get(b2[1], b2[1]), r["res"]),
                      "real RelayProcessor: order %s threshold %d drain %s consumed %s answered %s (cv=%s)" % (
                          r["order"], r["T"], r["drain"], {"g": r["g"], "e": r["e"], "ne": r["ne"], "pe": r["pe"]}, r["res"], r["cv"]),
                      {"cases": [cases[idx]]})
        return
    if ctx.quick:
        return
    _, resc = _run_cases(ctx, cases, "allc", conf=True)
    if not resc["accepted"]:
        ctx.drift.append("consumed responses / answer differ from Quorum.tla's prediction at case line %s" % vlib.violated_line(resc))


def replay(ctx, path):
    with open(path) as f:
        obj = vlib.json.load(f)
    rows, res = _run_cases(ctx, obj["cases"], "replay")
    b = _bad(rows, res)
    if b:
        r = rows[b[0]]
        ctx.violation("%s@res=%s" % (SIGS.get(b[1], b[1]), r["res"]), "replayed case still fails: %s" % vlib.json.dumps(r)[:400], obj)
