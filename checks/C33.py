"""C33 Cross-validated responses reflect an agreeing quorum.  (DESIGN.md section 4, C33)

M: Quorum.tla exhaustively: every arrival order of <= 4 responses over {d1,d2,d3,empty,nodeErr,protoErr},
   every threshold 1..n, with and without draining the queue - invariants QuorumOK (oracle over the
   responses consumed at the decision), EarlyExitOK, AllConsumedOK.
G: the same initial states are emitted as cases (tlc_emit).
R: harness/cmd/quorum feeds each case to a fresh real RelayProcessor in cross-validation mode
   (SetResponse in order, WaitForResults, optional NodeResults drain, ProcessingResult).
V: TLC validates the recorded cases against Trace_Quorum.tla: Obs invariants over the *logged consumed
   responses* decide; equality with the model's prediction (Conf) is reported as drift only.
"""
import os
import random
import vlib

LEVEL = "model_checking"
SIGS = {"invariant:ObsQuorum": "answer-not-an-agreeing-largest-quorum",
        "invariant:ObsCount": "reported-agreement-count-wrong",
        "invariant:ObsEarly": "early-exit-quorum-denied-by-ProcessingResult",
        "invariant:ObsDrained": "drain-left-responses-unconsumed"}


DATAS = ("d1", "d2", "d3")


def _multi(c):
    """a case in which at least two different data groups can reach the threshold (over-approximation from the input)"""
    return sum(1 for d in DATAS if c["order"].count(d) >= c["T"]) >= 2


def _run_cases(ctx, cases, tag, conf=False):
    binp = vlib.go_build("quorum")
    cpath = os.path.join(ctx.work, tag + "_cases.json")
    tpath = os.path.join(ctx.work, tag + "_trace.ndjson")
    vlib.write_json(cpath, cases)
    vlib.run_harness(binp, [cpath, tpath], env={"VERIF_REPO": vlib.REPO})
    rows = vlib.read_ndjson(tpath)
    want = sum(max(1, c.get("reps", 1)) for c in cases)
    if len(rows) != want:
        raise vlib.Infra("quorum driver answered %d of %d executions" % (len(rows), want))
    res = vlib.tlc_trace(ctx, "Trace_Quorum", "Trace_Quorum.cfg", tpath, env={"VERIF_CONF": "1" if conf else "0"},
                         tag=tag + ("_conf" if conf else "_obs"))
    return rows, res


def _bad(rows, res):
    """(index of the failing case, violated invariant, failing row) or None"""
    if res["accepted"]:
        return None
    if res["violated"] == "postcondition" or not str(res["violated"]).startswith("invariant:"):
        raise vlib.Infra("trace validation stopped unexpectedly: %s (see %s)" % (res["violated"], res["outfile"]))
    line = vlib.violated_line(res)
    if line is None or line < 1:
        raise vlib.Infra("cannot locate violating case (see %s)" % res["outfile"])
    return rows[line - 1]["i"], res["violated"], rows[line - 1]


def run(ctx):
    mc = vlib.tlc_mc(ctx, "Quorum", ctx.pick("Quorum_mcq.cfg", "Quorum_mc.cfg"), timeout=ctx.pick(600, 1800))
    if mc["violated"]:
        raise vlib.Infra("design-level spec violates %s (see %s)" % (mc["violated"], mc["outfile"]))
    ctx.add_mc("Quorum exhaustive", mc)
    em = vlib.tlc_emit(ctx, "Quorum", "Quorum_emit.cfg", timeout=900)
    allc = em["behaviours"]
    small = [c for c in allc if len(c["order"]) <= 3]
    big = [c for c in allc if len(c["order"]) == 4]
    if ctx.quick:
        rnd = random.Random(ctx.seed)
        rnd.shuffle(big)
        big = big[:400]
    cases = small + big
    # the selection iterates a Go map: cases in which several data groups can reach the threshold are executed
    # repeatedly so that every iteration order is seen (2 or 3 groups => 2 or 6 orders)
    for c in cases:
        c["reps"] = ctx.pick(12, 30) if _multi(c) else 1
    ctx.cov["evaluations"] = sum(c["reps"] for c in cases)
    ctx.cov["rule"] = ("case = (arrival order of 1..4 responses over {d1,d2,d3,empty,nodeErr,protoErr}, threshold 1..n, drain flag) "
                       "emitted by TLC from Quorum.tla Init; quick: all orders of length <= 3 and 400 seeded orders of length 4, "
                       "thorough: all 11820; cases where two data groups can reach the threshold are executed 12 (quick) / 30 (thorough) times because "
                       "the selection iterates a Go map; non-trivial = at least two successful responses")
    ctx.cov["distinct_nontrivial"] = len({vlib.json.dumps(c, sort_keys=True) for c in cases
                                          if sum(1 for k in c["order"] if k in ("d1", "d2", "d3", "empty")) >= 2})
    ctx.sample(cases[len(cases) // 2])
    rows, res = _run_cases(ctx, cases, "all")
    kinds = {r["res"] for r in rows}
    if not ({"error", "empty", "d1"} <= kinds) or not any(r["early"] for r in rows) or not any(r["drain"] and r["cnt"] == 4 for r in rows):
        raise vlib.Infra("vacuous: answers seen %s" % sorted(kinds))
    # "largest group" clause: executions in which >= 2 consumed data groups reach the threshold, with different sizes
    def groups_at(r):
        return sorted(v for v in r["g"].values() if v >= r["T"])
    multi_rows = [r for r in rows if len(groups_at(r)) >= 2]
    uneven = [r for r in multi_rows if groups_at(r)[0] != groups_at(r)[-1]]
    ties = [r for r in multi_rows if groups_at(r)[0] == groups_at(r)[-1]]
    tie_answers = {}
    for r in ties:
        tie_answers.setdefault(r["i"], set()).add(r["res"])
    if len(uneven) < 200 or len({r["i"] for r in uneven}) < 10 or len(ties) < 100:
        raise vlib.Infra("vacuous: only %d executions (%d cases) with two unequal groups at or above the threshold, %d tie executions" % (
            len(uneven), len({r["i"] for r in uneven}), len(ties)))
    ctx.cov["executions_with_two_unequal_groups_at_threshold"] = len(uneven)
    ctx.cov["cases_with_two_unequal_groups_at_threshold"] = len({r["i"] for r in uneven})
    ctx.cov["tie_executions"] = len(ties)
    ctx.cov["tie_cases_where_both_groups_were_returned"] = sum(1 for v in tie_answers.values() if len(v) >= 2)
    ctx.cov["answers_seen"] = {k: sum(1 for r in rows if r["res"] == k) for k in sorted(kinds)}
    ctx.cov["early_exits"] = sum(1 for r in rows if r["early"])
    ctx.cov["traces_validated_against_impl"] += len(cases)
    ctx.assumptions += ["responses are queued before WaitForResults runs (arrival order = queue order); the oracle is over the "
                        "responses the processor had consumed at the decision (DESIGN 4 C33)",
                        "payloads d1..d3 are three fixed distinct JSON bodies; sha256 collisions are not considered",
                        "LAV1 REST parser decides what a node error is (status 500 body)"]
    b = _bad(rows, res)
    if b:
        idx, inv, _ = b
        # the code may be nondeterministic (map iteration): re-execute the case 40 times in a fresh driver process;
        # any execution failing the same predicate again is a reproduction (the property quantifies over all runs)
        again = dict(cases[idx], reps=40)
        rows2, res2 = _run_cases(ctx, [again], "repro")
        b2 = _bad(rows2, res2)
        if not b2 or b2[1] != inv:
            raise vlib.Infra("counter-example not reproduced in 40 re-executions: case %s" % vlib.json.dumps(cases[idx]))
        r = b2[2]
        fails = "first failing re-execution #%d of 40" % r["rep"]
        ctx.violation("%s@res=%s" % (SIGS.get(inv, inv), r["res"]),
                      "real RelayProcessor: order %s threshold %d drain %s consumed %s answered %s (cv=%s); %s" % (
                          r["order"], r["T"], r["drain"], {"g": r["g"], "e": r["e"], "ne": r["ne"], "pe": r["pe"]}, r["res"], r["cv"], fails),
                      {"cases": [again]})
        return
    if ctx.quick:
        return
    _, resc = _run_cases(ctx, cases, "allc", conf=True)
    if not resc["accepted"]:
        ctx.drift.append("consumed responses / answer differ from Quorum.tla's prediction at case line %s" % vlib.violated_line(resc))


def replay(ctx, path):
    with open(path) as f:
        obj = vlib.json.load(f)
    rows, res = _run_cases(ctx, obj["cases"], "replay")
    b = _bad(rows, res)
    if b:
        r = b[2]
        ctx.violation("%s@res=%s" % (SIGS.get(b[1], b[1]), r["res"]), "replayed case still fails: %s" % vlib.json.dumps(r)[:400], obj)
