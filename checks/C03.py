"""C03 A relay session is paid at most once.  (DESIGN.md section 4, C03)

M: Payments.tla exhaustively (small constants): ghost set of credited session keys, C03_AtMostOnce
   (no key credited twice) and the step property C03_Step (credit only for epochs in memory; a failed
   transaction reverts; the unique-session set grows by exactly the accepted keys, which are new and
   pairwise distinct; every CU added to ProviderConsumerEpochCu is attributable to an accepted relay).
G: TLC -simulate (profile c03: few sessions, the same proof twice in one transaction, re-signed with
   another CuSum, resubmitted later, mixed with badge relays and hard-failing relays, many epochs so
   that epochs leave the chain's memory).
R: harness/t/payments replays on the real chain (atomic transactions through chainx.Tx).
V: Obs mode decides (the formulas above evaluated on real states/transitions; per-relay acceptance is
   what the chain's own relay_payment event reports, cross-checked against the epoch counters).
   Conf mode: drift only.
"""
import os
import importlib.util
import vlib

_spec = importlib.util.spec_from_file_location("_pay", os.path.join(os.path.dirname(os.path.abspath(__file__)), "_pay.py"))
_pay = importlib.util.module_from_spec(_spec)
_spec.loader.exec_module(_pay)

LEVEL = "model_checking"
CFG = "Trace_Payments_C03.cfg"


def classify(violated, ev, prev):
    sig = _classify(violated, ev, prev)
    if any(x.get("pfu") and x.get("acc") for x in ev.get("rs", [])):
        sig += "@provider-spelling"
    return sig


def _classify(violated, ev, prev):
    name = (violated or "").split(":")[-1]
    if name == "C03_AtMostOnce":
        return "session-credited-twice"
    if ev.get("ev") == "pay":
        st, pst = ev["st"], prev.get("st", {})
        same = all(st.get(k) == pst.get(k) for k in ("unique", "pec", "pcec", "bused", "used", "mleft", "tracked"))
        if not ev["ok"] and not same:
            return "failed-tx-changed-state"
        acc = [x for x in ev["rs"] if x["acc"]]
        if any(x["e"] < st["earliest"] for x in acc):
            return "credited-epoch-out-of-memory"
        keys = [[x["e"], ev["p"], x["proj"], x["sp"], x["ss"]] for x in acc]
        if len({vlib.json.dumps(k) for k in keys}) < len(keys) or any(k in pst.get("unique", []) for k in keys):
            return "session-credited-twice"
        want = {vlib.json.dumps(k) for k in pst.get("unique", [])} | {vlib.json.dumps(k) for k in keys}
        if {vlib.json.dumps(k) for k in st["unique"]} != want:
            return "unique-sessions-mismatch"
        return "unattributed-credit"
    return name


def run(ctx):
    if not os.environ.get("VERIF_PAY_SKIP_MC"):   # development aid for mutant runs: replay only
        g = _pay.mc(ctx, "Payments ladder exhaustive", "Payments_mcq.cfg", timeout=ctx.pick(900, 3600))
        if g["violated"]:
            raise vlib.Infra("design-level spec violates %s; spec must be repaired (see %s)" % (g["violated"], g["outfile"]))
    behs = _pay.generate(ctx, "c03", num=ctx.pick(60, 500), depth=11)
    ctx.cov["evaluations"] = len(behs)
    ctx.sample(behs[0])
    rows, tpath = _pay.decide(ctx, behs, CFG, "c03", classify, max_iter=ctx.pick(2, 4))
    if ctx.violations:
        return      # reproduced violation(s): the verdict stands, coverage accounting is moot
    cov = _pay.coverage(rows)
    # how often was an already paid session submitted again (same tx / later tx)?
    dup = 0
    for ch in vlib.split_traces(rows):
        paid = set()
        for r in ch:
            if r["ev"] != "pay":
                continue
            seen = set()
            for x in r["rs"]:
                k = (x["e"], r["p"], x["sg"], x["sp"], x["ss"])
                if k in paid or k in seen:
                    dup += 1
                seen.add(k)
            if r["ok"]:
                paid |= seen
    cov["resubmitted"] = dup
    cov["creator_upper_ok"] = sum(1 for r in rows if r["ev"] == "pay" and r.get("pu") and r["ok"])
    cov["provider_upper_relays"] = sum(1 for r in rows for x in r["rs"] if x.get("pfu"))
    ctx.cov["driver"] = cov
    ctx.cov["distinct_nontrivial"] = len({vlib.json.dumps(b) for b, ch in zip(behs, vlib.split_traces(rows))
                                          if sum(1 for r in ch if r["ev"] == "pay" and r["ok"]) >= 1 and
                                          sum(1 for r in ch if r["ev"] == "pay" and not r["ok"]) >= 1})
    ctx.cov["rule"] = ("behaviours = TLC -simulate runs of Payments.tla GenNext profile c03 (10 steps); non-trivial = at least one accepted "
                       "and one rejected payment transaction; distinct by full action list")
    if (cov["tx_ok"] < 20 or cov["relays_acc"] < 25 or dup < 10 or cov["hard"] < 3 or cov["soft"] < 10 or cov["expired_mem"] < 3
            or cov["creator_upper_ok"] < 3 or cov["provider_upper_relays"] < 3):
        raise vlib.Infra("vacuous coverage: %s" % cov)
    _pay.note_conf(ctx, tpath, "c03_conf", len(rows))
    ctx.assumptions += _pay.ASSUMPTIONS


def replay(ctx, path):
    _pay.replay_file(ctx, path, classify)
