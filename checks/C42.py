"""C42 IPRPC funds reach the providers that served IPRPC traffic.  (DESIGN.md section 4, C42)

Same spec (Rewards.tla), driver (harness/t/rewards) and trace spec (Trace_Rewards.tla) as C21; the shared
machinery lives in checks/C21.py.

M: Rewards.tla exhaustively (iprpc focus): SetIprpcData, FundIprpc (durations 1..2, 2 specs), relays of
   eligible / regular subscriptions, unstake, month ends - invariants IprpcPoolBacksPromises (pool balance
   = sum of reward records), IprpcConservation (funded = paid + taxed + community + leftover + promised),
   NoPastPromise, OnlyEligibleCu.
G: TLC -simulate (GenNextI: subscriptions, IPRPC data, fund, then relays / funds / month crossings).
R/V: replay into the real chain; every month end is compared with IprpcDist: per-provider share =
   floor(fundAfterTax * cu / totalCu) for exactly the providers with IPRPC CU, unserved specs roll to the
   next id, rounding leftovers go to the community pool, the ghost conservation holds at every block.
"""
import importlib.util
import os

import vlib

LEVEL = "model_checking"
_spec = importlib.util.spec_from_file_location("check_C21_shared", os.path.join(os.path.dirname(os.path.abspath(__file__)), "C21.py"))
fam = importlib.util.module_from_spec(_spec)
_spec.loader.exec_module(fam)

NEED = {"refills": 6, "iprpc_served": 2, "iprpc_rolled": 2, "fund_ok": 5, "relay_elig": 5, "relay_regular": 1, "tx_ok": 40}
WHAT = "real IPRPC distribution deviates from Rewards.tla"


def run(ctx):
    mcs = [("iprpc", ctx.pick("Rewards_iprpc_mcq.cfg", "Rewards_iprpc_mc.cfg"), ctx.pick(600, 2400))]
    ctx.cov["rule"] = ("behaviours = TLC -simulate runs of Rewards.tla GenNextI (50 steps: buy, buy, setdata, fund, then "
                       "setdata/fund/relay/buy/blocks/jump-relative-to-refill, unstake at two fixed positions); one behaviour per distinct "
                       "49-step prefix; driver coverage (served distributions, roll-overs, eligible and regular relays) is asserted")
    fam.run_family(ctx, "C42", mcs, "Rewards_simi.cfg", ctx.pick(14, 80), 51, "Trace_Rewards_C42.cfg", NEED, WHAT)


def replay(ctx, path):
    fam.replay_family(ctx, path, "Trace_Rewards_C42.cfg", "C42", WHAT)
