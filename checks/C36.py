"""C36 The relay cache never serves the wrong or corrupted reply.  (DESIGN.md section 4, C36)

M: Cache.tla exhaustively - SetRelay / GetRelay over the two ristretto caches (finalized / temp, lookup
   order, stored block hash, seen-block rule, latest-block record with soft expiry and tag resolution,
   shared-state seen block, compression classes) + environment Drop (TTL / eviction / refused
   admission); invariants HitSound, BytesOK, HashRule, KeySound on every reachable state.
   Cache_mcq/_mc: rule dimension (depth 3 / 4 + 1 drop); Cache_keys: all 21 request variants x 2 bases.
G: TLC -simulate emits set/get behaviours (8 steps) over 3 bases x 21 single-field request variants
   (9 differing only in ignored fields, 11 in a non-ignored field) x blocks {5, 6, LATEST, FINALIZED,
   EARLIEST} x finalized x block hash {none, h1, h2} x payload size class {small, thr-1, thr, thr+1,
   large, thr+1 incompressible} x reply latest block x shared state id.
R: harness/cmd/relaycache replays them into a real in-process RelayerCacheServer; keys come from the
   real chainlib.HashCacheRequest used as rpcconsumer / rpcprovider use it; ristretto Wait after each Set.
V: Trace_Cache.tla, Obs mode decides (a hit must be the byte-identical payload of a Set of the same
   identity and block; non-finalized + hash rule; request unchanged by key computation; no panic; equal
   key hash => equal identity).  Misses are accepted anywhere.  Model predictions of hit/miss (Conf)
   are drift only.
"""
import os
import re
import vlib

LEVEL = "model_checking"
CHUNK = 300
IGNORED = ("salt", "seen", "rid", "tid", "xid", "jid")
FIELDS = ("chain", "iface", "core", "jid", "url", "addon", "ext", "meta", "conn", "salt", "seen", "rid", "tid", "xid")


def _run_harness(ctx, behs, tag):
    binp = vlib.go_build("relaycache")
    tpath = os.path.join(ctx.work, tag + "_trace.ndjson")
    with open(tpath, "w") as fo:
        for ci in range(0, len(behs), CHUNK):
            bpath = os.path.join(ctx.work, "%s_behaviours_%d.json" % (tag, ci))
            cpath = os.path.join(ctx.work, "%s_trace_%d.ndjson" % (tag, ci))
            vlib.write_json(bpath, behs[ci:ci + CHUNK])
            vlib.run_harness(binp, [bpath, cpath], timeout=1800)
            with open(cpath) as fi:
                fo.write(fi.read())
            os.remove(cpath)
    return tpath, vlib.read_ndjson(tpath)


def _diff(a, b):
    return [f for f in FIELDS if a.get(f) != b.get(f)]


def _signature(kind, ev, chunk):
    """Short canonical description of the failing input class."""
    inv = kind.split(":")[-1]
    name = ev.get("ev")
    if ev.get("panic"):
        return "panic@%s" % name
    if inv in ("HitSound", "BytesOK") and ev.get("rpid") == -1:
        return "corrupted-reply@get"
    if inv == "HitSound":
        src =[r for r in chunk if r.get("ev") == "set" and r.get("pid") == ev.get("rpid")]
        if not src:
            return "HitSound@get:unknown-payload"
        d = _diff(src[0]["req"], ev["req"])
        d = [f for f in d if f not in IGNORED or (f == "jid" and ev["req"]["iface"] == "rest")]
        if src[0]["blk"] != ev["blk"]:
            d.append("block")
        return "HitSound@get:served-across-%s" % ("+".join(d) or "nothing")
    if inv == "BytesOK":
        return "BytesOK@get:size%s" % ev.get("rsz")
    if inv == "HashRule":
        return "HashRule@get:%s" % ("nohash" if ev.get("bh") == 0 else "otherhash")
    if inv == "Unchanged":
        return "Unchanged@%s" % name
    if inv == "KeySound":
        return "KeySound@%s" % name
    return "%s@%s" % (inv, name)


def _validate(ctx, behs, tag, count=True):
    tpath, rows = _run_harness(ctx, behs, tag)
    if sum(1 for r in rows if r["ev"] != "reset") != sum(len(b) for b in behs):
        raise vlib.Infra("driver logged %d steps for %d requested" % (len(rows), sum(len(b) for b in behs)))
    res = vlib.tlc_trace(ctx, "Trace_Cache", "Trace_Cache.cfg", tpath, tag=tag, timeout=1800)
    if not res["accepted"]:
        if res["violated"] == "postcondition" or not str(res["violated"]).startswith("invariant:"):
            raise vlib.Infra("trace not consumed by Trace_Cache (%s at line %s, see %s)" % (
                res["violated"], (res["reached"] or 0) + 1, res["outfile"]))
        line = vlib.violated_line(res)
        if line is None:
            raise vlib.Infra("cannot locate violating trace line (see %s)" % res["outfile"])
        bi, chunk, off = vlib.locate_trace(rows, line)
        ev = rows[line - 1]
        return {"sig": _signature(res["violated"], ev, chunk), "beh": behs[bi] if 0 <= bi < len(behs) else None,
                "line": off, "event": ev, "kind": res["violated"]}, rows
    drift = re.findall(r'<<"DRIFT", (\d+), "(\w+)", "(\w+)", (TRUE|FALSE)>>', res["out"])
    if count:
        ctx.cov["traces_validated_against_impl"] += len(behs)
        ctx.cov["trace_events"] = ctx.cov.get("trace_events", 0) + len(rows)
        ctx.cov["drift_lines"] = ctx.cov.get("drift_lines", 0) + len(drift)
        kinds = {}
        for _, ev, why, hit in drift:
            k = "%s predicted %s, real %s" % (ev, why, "hit" if hit == "TRUE" else "miss/other")
            kinds[k] = kinds.get(k, 0) + 1
        for k, n in sorted(kinds.items()):
            ctx.drift.append("%d x model/real mismatch: %s" % (n, k))
    return None, rows


def _coverage(ctx, rows):
    """Non-vacuity, measured on the real trace."""
    c = {"sets_ok": 0, "sets_rejected": 0, "gets": 0, "hits": 0, "hits_compressed": 0, "hits_threshold_edge": 0,
         "hits_incompressible": 0, "hits_via_ignored_variant": 0, "hits_via_tag": 0, "hits_finalized_entry": 0,
         "hits_hash_match": 0, "miss_hash_mismatch_candidates": 0, "miss_other_identity_candidates": 0,
         "miss_other_block_candidates": 0, "not_waited": 0}
    per_variant_hits = {}
    for chunk in vlib.split_traces(rows):
        sets = []
        for r in chunk:
            if r["ev"] == "set":
                if r["ok"]:
                    c["sets_ok"] += 1
                    sets.append(r)
                else:
                    c["sets_rejected"] += 1
                if not r["waited"]:
                    c["not_waited"] += 1
            elif r["ev"] == "get":
                c["gets"] += 1
                if r["hit"]:
                    c["hits"] += 1
                    src = [s for s in sets if s["pid"] == r["rpid"]]
                    if r["rsz"] in (4, 5):
                        c["hits_compressed"] += 1
                    if r["rsz"] in (2, 3):
                        c["hits_threshold_edge"] += 1
                    if r["rsz"] == 6:
                        c["hits_incompressible"] += 1
                    if r["blk"] < 0:
                        c["hits_via_tag"] += 1
                    if src:
                        d = _diff(src[0]["req"], r["req"])
                        if d:
                            c["hits_via_ignored_variant"] += 1
                            for f in d:
                                per_variant_hits[f] = per_variant_hits.get(f, 0) + 1
                        if src[0]["fin"]:
                            c["hits_finalized_entry"] += 1
                        elif src[0]["bh"] != 0:
                            c["hits_hash_match"] += 1
                else:
                    same = [s for s in sets if s["kid"] == r["kid"] and s["blk"] == r["blk"]]
                    if any((not s["fin"]) and s["bh"] != 0 and s["bh"] != r["bh"] for s in same):
                        c["miss_hash_mismatch_candidates"] += 1
                    if any(s["kid"] != r["kid"] and s["blk"] == r["blk"] for s in sets):
                        c["miss_other_identity_candidates"] += 1
                    if any(s["kid"] == r["kid"] and s["blk"] != r["blk"] for s in sets) and r["blk"] >= 0:
                        c["miss_other_block_candidates"] += 1
    c["hits_by_ignored_field"] = per_variant_hits
    ctx.cov["real_trace"] = c
    q = ctx.quick
    need = {"sets_ok": 300 if q else 1500, "hits": 80 if q else 400, "hits_compressed": 15 if q else 75,
            "hits_threshold_edge": 4 if q else 20, "hits_incompressible": 1 if q else 5,
            "hits_via_ignored_variant": 30 if q else 150, "hits_finalized_entry": 20 if q else 100,
            "hits_hash_match": 4 if q else 20, "miss_hash_mismatch_candidates": 10 if q else 50,
            "miss_other_identity_candidates": 50 if q else 250, "miss_other_block_candidates": 10 if q else 50,
            "sets_rejected": 5 if q else 25}
    low = {k: (c[k], v) for k, v in need.items() if c[k] < v}
    if low:
        raise vlib.Infra("vacuous coverage on the real cache (have, need): %s" % low)
    missing = [f for f in IGNORED if not per_variant_hits.get(f)]
    if missing:
        raise vlib.Infra("no cache hit through a request differing in ignored field(s) %s" % missing)
    if c["not_waited"]:
        ctx.notes.append("ristretto Wait not reachable through reflection for %d sets (sleep fallback)" % c["not_waited"])


def _mc(ctx):
    runs = [("Cache rules (set/get/drop)", ctx.pick("Cache_mcq.cfg", "Cache_mc.cfg"))]
    if not ctx.quick:
        runs.append(("Cache all request variants", "Cache_keys.cfg"))
    for name, cfg in runs:
        mc = vlib.tlc_mc(ctx, "Cache", cfg, timeout=ctx.pick(900, 3000), coverage=not ctx.quick)
        if mc["violated"]:
            raise vlib.Infra("design-level spec violates %s; spec must be repaired (see %s)" % (mc["violated"], mc["outfile"]))
        ctx.add_mc(name, mc)
        if not ctx.quick:
            dead = [a for a in mc.get("zero_actions", []) if a in ("Set", "Get", "Drop", "DoSet")]
            if dead and not (cfg == "Cache_keys.cfg" and dead == ["Drop"]):
                raise vlib.Infra("vacuous exhaustive run %s: actions never taken: %s" % (cfg, dead))


def run(ctx):
    if os.environ.get("VERIF_DEV_SKIP_MC") != "1":   # development knob (mutant runs): the exhaustive runs do not depend on the repo
        _mc(ctx)
    sim = vlib.tlc_sim(ctx, "Cache", "Cache_sim.cfg", num=ctx.pick(300, 1500), depth=9, timeout=1200)
    behs = [b for b in sim["behaviours"] if b and len(b) == 8 and b[0]["a"] == "set"]
    ctx.cov["evaluations"] = len(behs)
    nontriv = {vlib.json.dumps(b, sort_keys=True) for b in behs
               if any(s["a"] == "get" for s in b) and sum(1 for s in b if s["a"] == "set" and s["blk"] >= 0) >= 1}
    ctx.cov["distinct_nontrivial"] = len(nontriv)
    if len(nontriv) < ctx.pick(200, 1000):
        raise vlib.Infra("too few non-trivial behaviours: %d" % len(nontriv))
    ctx.cov["rule"] = ("behaviours = TLC -simulate runs of Cache.tla GenNext (8 set/get steps); non-trivial = at least one "
                       "accepted set and one get; distinct by full action list; real-trace coverage counters in coverage.real_trace")
    ctx.sample(behs[0][:3])
    ctx.assumptions += [
        "the RelayerCacheServer is driven in-process (no gRPC hop): messages are not re-marshalled between caller and handler",
        "one server per harness run; behaviours are isolated by a nonce in the chain id",
        "callers fill RelayCacheSet/RelayCacheGet as rpcconsumer_server.go / rpcprovider_server.go do (same chain id in the hash and in the message, request's own RequestBlock and SeenBlock)",
        "sha256 collisions are out of scope: the model takes the request hash to be injective on the non-ignored fields",
        "operations are sequential (HashCacheRequest is documented as not usable in parallel on one request)",
        "a miss is never an error (ristretto admission, eviction, TTL; 500 ms latest-block expiry)",
        "payload size classes follow common.CompressionThreshold of the tree under test",
    ]
    bad, rows = _validate(ctx, behs, "sim")
    if bad:
        if bad["beh"] is None:
            raise vlib.Infra("cannot map violation to a behaviour")
        again, _ = _validate(ctx, [bad["beh"]], "repro", count=False)
        if again is None:
            raise vlib.Infra("counter-example not reproduced: %s" % bad["sig"])
        ctx.violation(again["sig"], "real relay cache violates %s at step %d of the behaviour: %s" % (
            again["kind"], again["line"] - 1, vlib.json.dumps({k: again["event"].get(k) for k in (
                "ev", "req", "blk", "fin", "bh", "sid", "hit", "rpid", "rsz", "eq", "rlen", "rb", "kid", "unch", "panic", "panics")})[:900]),
            {"behaviours": [bad["beh"]]})
        return
    _coverage(ctx, rows)


def replay(ctx, path):
    with open(path) as f:
        obj = vlib.json.load(f)
    bad, _ = _validate(ctx, obj["behaviours"], "replay")
    if bad:
        ctx.violation(bad["sig"], "replayed behaviour still fails %s: %s" % (bad["kind"], vlib.json.dumps(bad["event"])[:600]),
                      {"behaviours": [bad["beh"]]})
