"""C11 Monthly subscription payouts are bounded and proportional.  (DESIGN.md section 4, C11)

M: specs/Subscription.tla (AddCuTimer / Payout = RewardAndResetCuTracker / returnCreditToSub are part of the
   model; exhaustive run shared with C12/C13) - the payout arithmetic itself is an operator of the trace spec.
G: TLC -simulate behaviours of Subscription.tla with relay payments of up to 3 providers (cu in {10, 70, 150, 400}),
   month ticks and advances past the cu-tracker timer, upgrades inside the payment window, expiries.
R: harness/t/subs on a real chain with 3 staked providers, one delegator, one validator; mode 0 = participation
   fees off and no contributor (exact per-provider equality observable), mode 1 = default fees + 10 % contributor.
   Reward pools start empty, so every balance change of a recipient is a subscription payout.  Multi-block
   advances are cut after each block in which a cu-tracker timer fired (one payout per logged line).
V: Trace_Subscription (Obs) on every transition: tokens leaving module+buyers = tokens arriving at providers
   (claimable rewards of provider and delegators), contributor, validators pools, community pool; nothing
   leaves without a payout; paid <= timer credit; paid = sum of floor(min(credit, 100*totalCu)*cu_p/totalCu)
   (mode 1: minus at most 3 indivisible tokens per provider lost in the split), per provider received <= its
   share and = share in mode 0; tracked CU of the paid month is gone afterwards; zero-CU month: credit back on
   the subscription version found at the payout block, or credit to the validators pool if the subscription is gone.
Limits: values near 2^64 are outside TLC integers (not explored); QoS/adjustment factors only influence the
   monthly bonus, which is switched off by the empty pools.
"""
import os
import sys

sys.path.insert(0, os.path.dirname(os.path.abspath(__file__)))
import subs_lib as sl  # noqa: E402
import vlib  # noqa: E402

LEVEL = "model_checking"
CFG = "Trace_Subscription_C11.cfg"


def _payout_info(chunk, off):
    ev = chunk[off - 1]
    prev = chunk[off - 2] if off >= 2 else ev
    cons = [c for c in prev["cs"]["c1"]["ct"] if c["at"] < ev["h"]]
    if not cons:
        return "no-payout", None
    c = cons[0]
    tc = [t for t in prev["tcu"] if t["sblk"] == c["sblk"]]
    total = sum(t["cu"] for t in tc)
    if total == 0:
        return "zero-cu", c
    unpaid = [t["pv"] for t in tc if ev["prov"][t["pv"]] == prev["prov"][t["pv"]] and (c["credit"] * t["cu"]) // total > 0]
    if unpaid:
        return "provider-share-unpaid", c
    return "paid", c


def _check(ctx, behs, modes, tag):
    tpath, rows = sl.drive(ctx, behs, tag, providers=3, modes=modes)
    res = sl.validate(ctx, tpath, CFG, tag)
    if not res["accepted"]:
        f = sl.failing(res, rows, behs)
        if f["inv"] == "TraceShape":
            raise vlib.Infra("driver logged two payouts in one line (line %d)" % f["line"])
        f["mode"] = modes[f["bi"]]
        kind, c = _payout_info(f["chunk"], f["off"])
        f["sig"] = "%s@%s:mode%d" % (f["inv"], kind, f["mode"])
        f["timer"] = c
        return f, rows
    return None, rows


def _report(ctx, f):
    ev = f["event"]
    prev = f["chunk"][f["off"] - 2]
    what = ("%s violated at step %d (%s, mode %d): timer %s tracked %s module %d->%d providers %s->%s contributor %d->%d pools %s->%s" % (
        f["inv"], f["off"] - 1, ev["ev"], f["mode"], f["timer"], prev["tcu"], prev["mb"], ev["mb"], prev["prov"], ev["prov"],
        prev["contr"], ev["contr"], {k: prev["pools"][k] for k in ("valdist", "community")},
        {k: ev["pools"][k] for k in ("valdist", "community")}))
    ctx.violation(f["sig"], what, {"behaviours": [f["beh"]], "modes": [f["mode"]]})


def run(ctx):
    ctx.assumptions += [
        "one consumer, 3 providers (50000 staked each), one delegator on v1, one validator, one spec; plan price <= 160, credit <= 2000",
        "reward pools start empty (no block rewards, no monthly bonus); no QoS reports",
        "TLC integers are 32-bit: sums near 2^64 are not explored",
    ]
    res, cand = sl.mc(ctx, ctx.pick("Subscription_mcq.cfg", "Subscription_mc.cfg"), timeout=ctx.pick(600, 2400))
    if cand:
        ctx.notes.append("design-level %s (not a C11 clause): see C12/C13" % res["violated"])
    else:
        ctx.add_mc("Subscription (all txs, 2 plans, 2 buyers)", res)
    # reachability query: TLC constructs the shortest history with a month whose tracked-CU entries sum up to 0
    # (1-CU relay with a QoS report scoring 0); continued past the cu-tracker timer, in both fee modes
    r3, c3 = sl.mc(ctx, "Subscription_cov3.cfg", timeout=600)
    if not c3:
        raise vlib.Infra("coverage target 'month with tracked-CU entries summing up to 0' not reachable in the model")
    adv = lambda a, k: {"a": a, "cr": "", "c": "", "p": "", "d": 0, "f": False, "n": k}  # noqa: E731
    cand3 = c3 + [adv("stale", 219), adv("block", 1)]
    n = ctx.pick(50, 300)
    need = {"paid": 15, "zero-cu": 10, "multi-provider": 5, "sub-gone": 1, "relay:ok": 100, "zero-cu-with-entries": 2}
    # "capped" payouts (credit above 100 per tracked CU) need a single 10-CU relay in a month: rare, reported, not required
    pay = sl.collections.Counter()
    behs, nrows = [], 0
    for rnd in range(4):     # top-up rounds until every payout kind is covered
        new = sl.sim(ctx, "Subscription_simpay.cfg", num=n, depth=16, tag="simpay%d" % rnd, seed=ctx.seed + 7919 * rnd)[:ctx.pick(220, 1200)]
        if rnd == 0:
            ctx.sample(new[0])
            new = [cand3, cand3] + new
        modes = [i % 2 for i in range(len(new))]
        finding, rows = _check(ctx, new, modes, "all%d" % rnd)
        if finding is not None:
            again, _ = _check(ctx, [finding["beh"]], [finding["mode"]], "repro")
            if again is None:
                raise vlib.Infra("counter-example not reproduced: %s" % finding["sig"])
            _report(ctx, again)
            return
        st = sl.stats(rows)
        pay["relay:ok"] += st.get("relay:ok", 0)
        prev = None
        for r in rows:
            if prev is not None and r["ev"] != "reset":
                cons = [c for c in prev["cs"]["c1"]["ct"] if c["at"] < r["h"]]
                if cons and r["ev"] in sl.ADV + ("payout",):
                    c = cons[0]
                    tc = [t for t in prev["tcu"] if t["sblk"] == c["sblk"]]
                    total = sum(t["cu"] for t in tc)
                    if total > 0:
                        pay["paid"] += 1
                        pay["multi-provider"] += len(tc) > 1
                        pay["capped"] += c["credit"] // total > 100
                    else:
                        pay["zero-cu"] += 1
                        pay["zero-cu-with-entries"] += len(tc) > 0
                        pay["sub-gone"] += not prev["cs"]["c1"]["subn"]["on"]
            prev = r
        behs += new
        nrows += len(rows)
        miss = {k: (pay[k], v) for k, v in need.items() if pay[k] < v}
        if not miss:
            break
    ctx.cov["evaluations"] = len(behs)
    ctx.cov["traces_validated_against_impl"] += len(behs)
    ctx.cov["trace_events"] = nrows
    ctx.cov["payouts"] = dict(pay)
    if pay["capped"] == 0:
        ctx.notes.append("no payout with the per-CU cap active was generated in this run")
    if miss:
        raise vlib.Infra("vacuous coverage after 4 rounds (have, need): %s" % miss)
    ctx.cov["distinct_nontrivial"] = len({vlib.json.dumps(b) for b in behs
                                          if any(s["a"] == "relay" for s in b) and any(s["a"] == "month" for s in b)
                                          and any(s["a"] == "stale" for s in b)})
    ctx.cov["rule"] = ("behaviours = TLC -simulate runs of Subscription.tla with relays (16 steps) x fee mode; non-trivial = has a "
                       "relay, a month tick and an advance past the payout timer; distinct by full action list")


def replay(ctx, path):
    with open(path) as f:
        obj = vlib.json.load(f)
    finding, _ = _check(ctx, obj["behaviours"], obj.get("modes") or [0] * len(obj["behaviours"]), "replay")
    if finding:
        _report(ctx, finding)
