"""C22 Spec inheritance expands deterministically and completely.  (DESIGN.md section 4, C22)

M: SpecExpand.tla - transcription of keeper.ExpandSpec/DoExpandSpec/CombineWithOthers/CombineFields/
   CombineUnique/ValidateSpec; TLC checks Rejects/Complete/NoDup/NoJunk/CUInRange for every input vector
   (import graphs on 4 specs incl. self/2-cycles/dangling imports; collections x enabled x apis x
   override/conflict).  The as-found CombineFields variant (Fixed = FALSE) must violate NoDup (sanity).
G: TLC writes out every input vector of the binding family (Emit_SpecExpand) + a seeded TLC -simulate
   sample of the richest family.
R: harness/cmd/specexpand materialises each vector as real Spec protos in a real spec keeper store and
   runs the real keeper.ExpandSpec (6 times, two stores) and keeper.ValidateSpec for every stored spec.
V: TLC (Trace_SpecExpand) judges every (input, real outcome) line: the C22 predicates on the real outcome
   (Obs) and equality with the model's outcome on error class / expanded collections as bags /
   acceptance (Conf, = violation for C22); exact order is drift only.
Every failing class is re-executed in a fresh driver process on its single vector before it is reported.
"""
import json
import os
import vlib

LEVEL = "model_checking"

OBS = ["panic", "accepts-cycle-or-unknown-import", "missing-collection", "missing-api", "dup-collection",
       "dup-api@own-collection", "dup-api@inherited-collection", "accepted-cu-out-of-range", "nondeterministic"]
WHAT = {
    "panic": "ExpandSpec/ValidateSpec panicked",
    "accepts-cycle-or-unknown-import": "a spec whose import graph contains a cycle or an unknown import expanded successfully",
    "missing-collection": "an enabled collection of an import is absent from the expanded spec",
    "missing-api": "an enabled API of an import is absent from the expanded spec although the spec does not override it",
    "dup-collection": "the expanded spec holds the same collection twice",
    "dup-api@own-collection": "successful expansion with a duplicate API: two imports carry an equal API that the spec's own collection inherits (CombineFields appends it twice)",
    "dup-api@inherited-collection": "successful expansion with a duplicate API in a collection inherited from >= 3 import paths (CombineFields appends an equal API twice)",
    "accepted-cu-out-of-range": "ValidateSpec accepted a spec exposing an API whose compute units are out of range",
    "nondeterministic": "repeated expansion of the same store gave different results",
    "conf:error-class": "expansion success/error class differs from SpecExpand.tla",
    "conf:expanded-spec": "expanded collections differ (as bags) from SpecExpand.tla",
    "conf:acceptance": "ValidateSpec verdict differs from SpecExpand.tla",
}


def _judge(ctx, vectors, tag):
    """Run the real code on the vectors and let TLC judge every line.
    Returns (rows, {id: [classes]})."""
    binp = vlib.go_build("specexpand")
    vpath = os.path.join(ctx.work, tag + "_vectors.json")
    tpath = os.path.join(ctx.work, tag + "_trace.ndjson")
    vlib.write_json(vpath, vectors)
    vlib.run_harness(binp, [vpath, tpath])
    rows = vlib.read_ndjson(tpath)
    if len(rows) != len(vectors):
        raise vlib.Infra("driver wrote %d lines for %d vectors" % (len(rows), len(vectors)))
    res = vlib.tlc_mc(ctx, "Trace_SpecExpand", "Trace_SpecExpand.cfg", env={"VERIF_TRACE": tpath},
                      tag=tag + "_trace", timeout=ctx.pick(900, 3600))
    if res["violated"]:
        raise vlib.Infra("trace judging stopped: %s (see %s)" % (res["violated"], res["outfile"]))
    hwm = [int(x) for x in vlib.re.findall(r'<<"HWM", (\d+)>>', res["out"])]
    if not hwm or max(hwm) != len(rows):
        raise vlib.Infra("TLC judged %s of %d lines (see %s)" % (hwm, len(rows), res["outfile"]))
    bad = {}
    for b in vlib.parse_emitted(res["out"], "BAD"):
        bad[b["id"]] = sorted(b["classes"])
    return rows, bad


def _candidates(bad):
    """signature -> smallest id showing it.  Conf classes count only on lines without an Obs class."""
    cand = {}
    drift = 0
    for i in sorted(bad):
        cl = bad[i]
        obs = [c for c in cl if c in OBS]
        conf = [c for c in cl if c.startswith("conf:")]
        drift += any(c.startswith("drift:") for c in cl)
        for c in (obs if obs else conf):
            cand.setdefault(c, i)
        for c in cl:
            if c not in OBS and not c.startswith("conf:") and not c.startswith("drift:"):
                raise vlib.Infra("unknown verdict class %r" % c)
    return cand, drift


def _coverage(ctx, rows):
    n = {"ok_with_imports": 0, "loop": 0, "unknown": 0, "conflict": 0, "valid": 0, "invalid": 0, "inherit": 0,
         "cu_rejected": 0, "other": 0, "tied_inherited": 0}
    for r in rows:
        for s, o in r["res"].items():
            imps = r["db"][s]["imports"]
            if o["err"] == "" and imps:
                n["ok_with_imports"] += 1
                own = sum(len(c["apis"]) for c in r["db"][s]["cols"])
                if sum(len(c["apis"]) for c in o["cols"]) > own:
                    n["inherit"] += 1
                # >= 2 inherited (not own) collections whose keys differ only in the internal path
                mine = {c["cd"] for c in r["db"][s]["cols"]}
                if len([c for c in o["cols"] if c["cd"].startswith("c1") and c["cd"] not in mine]) >= 2:
                    n["tied_inherited"] += 1
            if o["err"] in ("loop", "unknown", "conflict"):
                n[o["err"]] += 1
            elif o["err"]:
                n["other"] += 1
            if o["err"] == "":
                n["valid" if o["valid"] else "invalid"] += 1
                if not o["valid"] and any(a["cu"] < 1 or a["cu"] > 50 for c in o["cols"] for a in c["apis"]):
                    n["cu_rejected"] += 1
    ctx.cov["real_outcomes"] = n
    for k in ("ok_with_imports", "loop", "unknown", "conflict", "valid", "invalid", "inherit", "cu_rejected", "tied_inherited"):
        if n[k] == 0:
            raise vlib.Infra("vacuous binding: no real outcome of kind %s" % k)
    if n["other"]:
        ctx.notes.append("%d expansions failed with an unclassified error" % n["other"])


def _confirm(ctx, cand, rows_by_id):
    """Re-execute one vector per signature in a fresh driver process; report what reproduces."""
    if not cand:
        return
    sigs = sorted(cand)
    vecs = [rows_by_id[cand[s]]["db"] for s in sigs]
    rows2, bad2 = _judge(ctx, vecs, "repro")
    for k, s in enumerate(sigs):
        if s not in bad2.get(k, []):
            raise vlib.Infra("counter-example not reproduced: %s" % s)
        ctx.violation(s, "%s; real outcome %s" % (WHAT.get(s, s), json.dumps(rows2[k]["res"], sort_keys=True)[:600]),
                      {"vectors": [vecs[k]], "signature": s})


def run(ctx):
    cfgs = ctx.pick(["SpecExpand_mcq.cfg"],
                    ["SpecExpand_mc_graphs.cfg", "SpecExpand_mc_dag.cfg", "SpecExpand_mc_core.cfg"])
    for cfg in cfgs:
        mc = vlib.tlc_mc(ctx, "SpecExpand", cfg, timeout=ctx.pick(600, 3000))
        if mc["violated"]:
            raise vlib.Infra("design-level SpecExpand (Fixed) violates %s under %s (see %s)" % (mc["violated"], cfg, mc["outfile"]))
        ctx.add_mc("SpecExpand " + cfg, mc)
    bug = vlib.tlc_mc(ctx, "SpecExpand", "SpecExpand_mcq_buggy.cfg", timeout=600)
    if bug["violated"] != "invariant:NoDupInv":
        raise vlib.Infra("sanity: the as-found CombineFields variant must violate NoDupInv, got %s" % bug["violated"])
    ctx.notes.append("design level: SpecExpand with Fixed=FALSE (CombineFields as found) violates NoDupInv (F15)")

    vectors = []
    for cfg in ctx.pick(["Emit_SpecExpand_q.cfg"], ["Emit_SpecExpand_q.cfg", "Emit_SpecExpand_t2.cfg"]):
        opath = os.path.join(ctx.work, cfg + ".ndjson")
        vlib.tlc_mc(ctx, "Emit_SpecExpand", cfg, workers=1, env={"VERIF_OUT": opath}, timeout=1200, tag="emit_" + cfg)
        got = vlib.read_ndjson(opath)
        if not got:
            raise vlib.Infra("emit run %s produced nothing" % cfg)
        vectors += got
    n_exh = len(vectors)
    sim = vlib.tlc_sim(ctx, "SpecExpand", "SpecExpand_sim.cfg", num=ctx.pick(30, 300), depth=50, timeout=1200)
    seen = {json.dumps(v, sort_keys=True) for v in vectors}
    for v in sim["behaviours"]:
        k = json.dumps(v, sort_keys=True)
        if k not in seen:
            seen.add(k)
            vectors.append(v)
    ctx.cov["evaluations"] = 4 * len(vectors)
    ctx.cov["rule"] = ("vector = store of 4 specs; every stored spec is expanded (4 evaluations per vector). Exhaustive part: "
                       "SpecExpand families of Emit_SpecExpand_*.cfg (%d vectors); sampled part: TLC -simulate draws of the Level-3 "
                       "family (two collections, apis a/b, CU out of range, any import graph). distinct_nontrivial = distinct "
                       "vectors in which some spec with imports expands successfully" % n_exh)
    ctx.assumptions += ["bounded: 4 specs + 1 unknown index, collections {c1,c2}, apis {a,b}; only the API list of a collection is varied "
                        "(headers/parsers/extensions/verifications use the same generic merge code)",
                        "InheritanceApis (inheritance inside one spec) not exercised",
                        "determinism = byte-identical marshalled expansion (ordered) over 6 runs / two stores, 64 runs when the store holds "
                        "collections whose keys differ only in the internal path (tied keys would surface in Go map order)",
                        "keeper store = in-memory IAVL; staking keeper stubbed (BondDenom only); MaxCU param = 50"]
    rows, bad = _judge(ctx, vectors, "all")
    _coverage(ctx, rows)
    ctx.cov["distinct_nontrivial"] = sum(1 for r in rows if any(o["err"] == "" and r["db"][s]["imports"] for s, o in r["res"].items()))
    ctx.cov["traces_validated_against_impl"] += len(rows)
    ctx.sample(vectors[len(vectors) // 2])
    cand, drift = _candidates(bad)
    if drift:
        ctx.drift.append("%d vectors: order of collections/APIs differs from SpecExpand.tla (same bags)" % drift)
    ctx.cov["bad_lines"] = len([1 for b in bad.values() if any(not c.startswith("drift:") for c in b)])
    _confirm(ctx, cand, {r["id"]: r for r in rows})


def replay(ctx, path):
    with open(path) as f:
        obj = json.load(f)
    rows, bad = _judge(ctx, obj["vectors"], "replay")
    cand, _ = _candidates(bad)
    for s, i in sorted(cand.items()):
        ctx.violation(s, "replayed vector still fails: %s; %s" % (WHAT.get(s, s), json.dumps(rows[i]["res"], sort_keys=True)[:400]),
                      {"vectors": [rows[i]["db"]], "signature": s})
