"""Shared helpers of the subscription family (C11, C12, C13): one spec (specs/Subscription.tla), one chain
driver (harness/t/subs), one trace spec (specs/Trace_Subscription.tla) with one cfg per property."""
import collections
import json
import os
import re

import vlib

DRIVER = "subs"
ADV = ("block", "epoch", "stale", "month")


def tla_hist(out):
    """hist of the last state printed in a TLC error trace (TLA+ value syntax -> python)."""
    i = out.rfind("/\\ hist = ")
    if i < 0:
        return None
    j = out.find("\n/\\ ", i + 5)
    k = out.find("\n\n", i + 5)
    end = min(x for x in (j, k, len(out)) if x > 0)
    t = out[i + len("/\\ hist = "):end]
    t = t.replace("<<", "[").replace(">>", "]")
    t = re.sub(r"(\w+) \|->", r'"\1":', t)
    t = t.replace("TRUE", "true").replace("FALSE", "false")
    t = re.sub(r'\[\s*("\w+":)', r"{\1", t)
    res, stack = [], []
    for ch in t:
        if ch in "{[":
            stack.append(ch)
            res.append(ch)
        elif ch == "]":
            res.append("}" if stack.pop() == "{" else "]")
        else:
            res.append(ch)
    return json.loads("".join(res))


def mc(ctx, cfg, timeout, tag=None):
    """Exhaustive run of Subscription.tla; returns (result, candidate behaviour or None)."""
    res = vlib.tlc_mc(ctx, "Subscription", cfg, timeout=timeout, tag=tag)
    cand = None
    if res["violated"]:
        cand = tla_hist(res["out"])
        if not cand:
            raise vlib.Infra("design-level violation %s on %s without a parsable history (see %s)" % (
                res["violated"], cfg, res["outfile"]))
    return res, cand


def sim(ctx, cfg, num, depth, tag, seed=None):
    r = vlib.tlc_sim(ctx, "Subscription", cfg, num=num, depth=depth, tag=tag, seed=seed)
    return r["behaviours"]


def drive(ctx, behs, tag, days=None, providers=0, modes=None):
    binp = vlib.go_test_build(DRIVER)
    ipath = os.path.join(ctx.work, tag + "_in.json")
    tpath = os.path.join(ctx.work, tag + "_trace.ndjson")
    vlib.write_json(ipath, {"seed": ctx.seed, "behaviours": behs, "days": days or [0] * len(behs),
                            "providers": providers, "modes": modes or [0] * len(behs)})
    vlib.run_test_harness(binp, {"VERIF_IN": ipath, "VERIF_OUT": tpath})
    rows = vlib.read_ndjson(tpath)
    if sum(1 for r in rows if r["ev"] == "reset") != len(behs):
        raise vlib.Infra("driver wrote %d behaviours, expected %d" % (sum(1 for r in rows if r["ev"] == "reset"), len(behs)))
    return tpath, rows


def validate(ctx, tpath, cfg, tag, drift=False):
    return vlib.tlc_trace(ctx, "Trace_Subscription", cfg, tpath, env={"VERIF_DRIFT": "1" if drift else "0"}, tag=tag,
                          timeout=1800)


def failing(res, rows, behs):
    """-> dict(inv, line (1-based in file), bi, chunk, off, event) for a rejected Obs run."""
    if res["violated"] == "postcondition":
        raise vlib.Infra("trace spec stopped before the end of the trace at line %s (see %s)" % (res["reached"], res["outfile"]))
    line = vlib.violated_line(res)
    if line is None:
        raise vlib.Infra("cannot locate the violating trace line (see %s)" % res["outfile"])
    bi, chunk, off = vlib.locate_trace(rows, line)
    return {"inv": res["violated"].split(":", 1)[-1], "line": line, "bi": bi, "chunk": chunk, "off": off,
            "event": rows[line - 1], "beh": behs[bi] if 0 <= bi < len(behs) else None}


def drift_lines(res):
    m = re.findall(r'<<"DRIFT", <<(.*?)>>>>', res["out"])
    if not m:
        return []
    return [int(x) for x in m[-1].split(",") if x.strip()]


CONS = ("c1", "c2")


def fired(prev, r, c):
    return r["ev"] in ADV + ("payout",) and r["ok"] and any(e <= r["t"] for e in prev["cs"][c]["mt"])


def month_kind(prev, r, c):
    ps, ns = prev["cs"][c]["subn"], r["cs"][c]["subn"]
    if not ps["on"]:
        return "nosub"
    if ps["left"] > 1:
        return "continue"
    if ps["fut"]["on"] and ns["on"]:
        return "activate-future"
    if ps["auto"] != "none" and ns["on"]:
        return "renew"
    if ps["auto"] != "none" and not ps["fut"]["on"]:
        return "renew-failed"
    return "expire"


def stats(rows):
    c = collections.Counter()
    prev = None
    for r in rows:
        if r["ev"] == "reset":
            prev = r
            c["behaviours"] += 1
            continue
        c[r["ev"] + (":ok" if r["ok"] else ":fail")] += 1
        if prev is not None:
            for cn in CONS:
                if fired(prev, r, cn):
                    k = month_kind(prev, r, cn)
                    c["month:" + k] += 1
                    ps, ns = prev["cs"][cn]["subn"], r["cs"][cn]["subn"]
                    if k == "renew" and (ns["pi"], ns["pb"]) != (ps["pi"], ps["pb"]):
                        c["month:renew-onto-other-version"] += 1
                    if k == "renew-failed":
                        # would the renewal have moved to another plan version, and does somebody else hold the old one?
                        others = [o for o in CONS if o != cn and prev["cs"][o]["subn"]["on"]
                                  and (prev["cs"][o]["subn"]["pi"], prev["cs"][o]["subn"]["pb"]) == (ps["pi"], ps["pb"])]
                        latest = [v["b"] for v in r["plans"].get(ps["auto"], []) if v["latest"]]
                        if (ps["auto"] != ps["pi"] or (latest and latest[0] != ps["pb"])):
                            c["month:renew-failed-onto-other-version"] += 1
                            if others:
                                c["month:renew-failed-other-version-shared"] += 1
            if r["ev"] == "buy" and r["ok"]:
                ps = prev["cs"][r["c"]]["subn"]
                kind = "new" if not ps["on"] else ("upgrade" if ps["pi"] != r["p"] else "extend")
                c["buy:" + kind] += 1
                if kind == "new":
                    o = [x for x in CONS if x != r["c"]][0]
                    if prev["cs"][o]["subn"]["on"] and (prev["cs"][o]["subn"]["pi"], prev["cs"][o]["subn"]["pb"]) == (
                            r["cs"][r["c"]]["subn"]["pi"], r["cs"][r["c"]]["subn"]["pb"]):
                        c["buy:shares-plan-version"] += 1
            if r["ev"] == "adv" and r["ok"]:
                pc = prev["cs"][r["c"]]
                c["adv:replace" if pc["subn"]["fut"]["on"] else "adv:new"] += 1
                if pc["subn"]["blk"] > prev["h"]:
                    c["adv:after-upgrade-same-epoch"] += 1
            if r["ev"] in ADV and any(r["cs"][cn]["sub"]["on"] for cn in CONS):
                for p, vs in r["plans"].items():
                    pv = {v["b"]: v for v in prev["plans"].get(p, [])}
                    for v in vs:
                        if v["b"] in pv and pv[v["b"]]["latest"] and not v["latest"] and v["del"] <= r["h"]:
                            c["plan-delete-matured-with-live-sub"] += 1
            np_ = sum(len(v) for v in prev["plans"].values())
            nn = sum(len(v) for v in r["plans"].values())
            if r["ev"] in ADV and nn < np_:
                c["plan-version-gc"] += 1
        prev = r
    return c


def plan_ref_origin(chunk, off, cn):
    """event that last changed consumer cn's live plan reference before line `off` of the chunk"""
    origin = "none"
    last = None
    for i, r in enumerate(chunk[:off]):
        sub = r["cs"][cn]["sub"]
        cur = (sub["pi"], sub["pb"]) if sub["on"] else None
        if cur != last and cur is not None:
            origin = r["ev"]
            if r["ev"] == "month" and i > 0:
                ps = chunk[i - 1]["cs"][cn]["subn"]
                origin = "month-activate-future" if ps["fut"]["on"] else ("month-renew" if ps["auto"] != "none" else "month")
            elif r["ev"] in ("block", "epoch", "stale") and i > 0:
                origin = "upgrade-matured"
        last = cur
    return origin
