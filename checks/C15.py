"""C15 Timers fire exactly once, in order, when due.  (DESIGN.md section 4, C15)

M: TimerStore.tla exhaustively (both timer kinds, callback programs) - invariants NoLate, NextSound,
   ExactlyOnce, NotEarly, Ordered, Unique.
G: TLC -simulate emits behaviours (add/del/has/tick with parameters).
R: harness/cmd/timerstore replays them into the real TimerStore; full projected state per step.
V: TLC validates the recorded trace against Trace_TimerStore (Conf mode on the observables: pending
   timers, fired log, has-answers; the invariants are evaluated on every real state).
"""
import os
import vlib

LEVEL = "model_checking"


def _validate(ctx, behs, tag):
    binp = vlib.go_build("timerstore")
    bpath = os.path.join(ctx.work, tag + "_behaviours.json")
    tpath = os.path.join(ctx.work, tag + "_trace.ndjson")
    vlib.write_json(bpath, behs)
    vlib.run_harness(binp, [bpath, tpath])
    res = vlib.tlc_trace(ctx, "Trace_TimerStore", "Trace_TimerStore.cfg", tpath,
                         env={"VERIF_MATCH_NEXT": "0"}, tag=tag)
    rows = vlib.read_ndjson(tpath)
    if not res["accepted"]:
        # Obs invariant violated, or Conf rejection (model equality is the property)
        if res["violated"] == "postcondition":
            line = (res["reached"] or 0) + 1
            kind = "conf-reject"
        else:
            line = vlib.violated_line(res) or (res["reached"] or 1)
            kind = res["violated"]
        bi, chunk, off = vlib.locate_trace(rows, line)
        beh = behs[bi] if 0 <= bi < len(behs) else None
        ev = rows[line - 1] if line - 1 < len(rows) else {}
        sig = "%s@%s" % (kind, ev.get("ev"))
        if ev.get("panic"):
            sig = "panic@%s" % ev.get("ev")
        return {"sig": sig, "beh": beh, "line": off, "event": ev, "kind": kind}
    # drift-only pass: internal lazy next-timeout cache
    res2 = vlib.tlc_trace(ctx, "Trace_TimerStore", "Trace_TimerStore.cfg", tpath,
                          env={"VERIF_MATCH_NEXT": "1"}, tag=tag + "_next")
    if not res2["accepted"]:
        ctx.drift.append("lazy next-timeout cache differs from the model at trace line %s" % ((res2["reached"] or 0) + 1))
    ctx.cov["traces_validated_against_impl"] += len(behs)
    ctx.cov["trace_events"] = ctx.cov.get("trace_events", 0) + len(rows)
    return None


def run(ctx):
    mc = vlib.tlc_mc(ctx, "TimerStore", ctx.pick("TimerStore_mcq.cfg", "TimerStore_mc.cfg"),
                     timeout=ctx.pick(300, 1800))
    if mc["violated"]:
        raise vlib.Infra("design-level spec violates %s; spec must be repaired (see %s)" % (mc["violated"], mc["outfile"]))
    ctx.add_mc("TimerStore exhaustive", mc)
    behs = []
    for i, cfg in enumerate(("TimerStore_sim.cfg", "TimerStore_simH.cfg", "TimerStore_simT.cfg")):
        sim = vlib.tlc_sim(ctx, "TimerStore", cfg, num=ctx.pick(1500, 15000), depth=14, seed=ctx.seed + i,
                           tag="sim%d" % i)
        behs += sim["behaviours"]
    ctx.cov["evaluations"] = len(behs)
    nontriv = {vlib.json.dumps(b) for b in behs if any(s["a"] == "tick" for s in b) and any(s["a"] == "add" for s in b)}
    ctx.cov["distinct_nontrivial"] = len(nontriv)
    ctx.cov["rule"] = ("behaviours = TLC -simulate runs of TimerStore.tla GenNext (12 ops over add/del/has/tick/reload; both kinds, H only, T only; "
                       "callback programs N/A/X/D); non-trivial = contains at least one add and one tick; distinct by full action list")
    ctx.sample(behs[0])
    ctx.assumptions += ["TLC bounded constants (see specs/TimerStore_mc*.cfg)",
                        "callbacks limited to the four programs N/A/X/D",
                        "IAVL in-memory store behaves like the production store"]
    bad = _validate(ctx, behs, "sim")
    if bad:
        # reproduce in a fresh run on the single behaviour
        again = _validate(ctx, [bad["beh"]], "repro")
        if again is None:
            raise vlib.Infra("counter-example not reproduced: %s" % bad["sig"])
        ctx.violation(again["sig"], "real timer store deviates from TimerStore.tla / invariant at step %d: %s" % (
            again["line"], vlib.json.dumps(again["event"])[:400]), {"behaviours": [bad["beh"]]})


def replay(ctx, path):
    with open(path) as f:
        obj = vlib.json.load(f)
    bad = _validate(ctx, obj["behaviours"], "replay")
    if bad:
        ctx.violation(bad["sig"], "replayed behaviour still fails: %s" % vlib.json.dumps(bad["event"])[:400],
                      {"behaviours": [bad["beh"]]})
