"""C41 Provider load limiting admits, runs and answers each request once. (DESIGN.md section 4, C41)

M: Limiter.tla exhaustively (callers of both buckets, the queue worker, cancel / expired-deadline environment;
   labels = yield points of resource_limiter.go) - invariants Bounded, AtMostOnce, OkMeansRan, NoForeignResult,
   ErrMeansNotRun, Released, Counters, deadlock freedom.
G: schedules (scenario + sequence of process names) from TLC: -simulate (seeded) in both tiers, plus the
   exhaustive enumeration of every schedule of the small scenarios ScnEnum in the thorough tier.
R: harness/cmd/limiter replays every schedule with a gate scheduler on the real ResourceLimiter
   (hooks/rpcprovider_limiter.patch) and logs the projected state after every step.
V: TLC validates the recorded trace: Obs mode evaluates the C41 invariants on the real states (violation =
   statement about the code, re-executed before it is reported); Conf mode requires every real step to be
   the spec's step (rejection = the model no longer predicts the code: exit 2, never a violation).
"""
import json
import os
import vlib

LEVEL = "model_checking"
HOOK_FILE = "protocol/rpcprovider/resource_limiter_verif.go"
CALLER_LABELS = {"exec", "presend", "waiting", "fin"}
WORKER_LABELS = {"idle", "checked", "exec", "send"}
REPRO_TRIES = 12   # a Go select with two ready cases picks one at random


def _norm(b):
    par = dict(b["par"])
    for k in ("cal", "can"):
        if isinstance(par.get(k), list):
            par[k] = {}
    return {"par": par, "sched": list(b["sched"])}


def _need_hooks():
    p = os.path.join(vlib.REPO, HOOK_FILE)
    if not os.path.exists(p):
        raise vlib.Infra("schedule hooks missing in %s (no %s): apply /verif/hooks/rpcprovider_limiter.patch "
                         "(after fixes/F10) or run with VERIF_REPO=<tree with hooks>" % (vlib.REPO, HOOK_FILE))
    src = open(p).read()
    for sym in ("VerifLimiterYield", "VerifSetHeavyQueueTimeout", "VerifState"):
        if sym not in src:
            raise vlib.Infra("hook symbol %s missing in %s" % (sym, p))


def _signature(name, ev, par):
    """canonical class of the failing state"""
    if name == "ErrMeansNotRun":
        return "caller-returns-error-but-request-runs"
    return name


_BIN = []


def _bin():
    if not _BIN:
        _BIN.append(vlib.go_build("limiter"))
    return _BIN[0]


def _replay(ctx, behs, tag, conf=True):
    binp = _bin()
    bpath = os.path.join(ctx.work, tag + "_behaviours.json")
    tpath = os.path.join(ctx.work, tag + "_trace.ndjson")
    vlib.write_json(bpath, behs)
    p = vlib.run_harness(binp, [bpath, tpath], timeout=3600)
    try:
        hs = json.loads(p.stdout.strip().splitlines()[-1])
    except Exception:
        raise vlib.Infra("harness printed no summary: %s" % p.stdout[-500:])
    rows = vlib.read_ndjson(tpath)
    if not rows:
        raise vlib.Infra("dead driver: empty trace")
    tr = lambda mode: vlib.tlc_trace(ctx, "Trace_Limiter", "Trace_Limiter.cfg", tpath, env={"VERIF_MODE": mode},
                                     tag=tag + "_" + mode, timeout=3000)
    # pass 1: Conf mode with the invariants switched on (conforming steps produce exactly the observed states, so the
    # invariants are evaluated on real observations); only if it does not go through, pass 2 (Obs mode) decides whether
    # the real states violate the property (VIOLATION candidate) or the model merely mis-predicted the code (drift)
    res2 = tr("conf") if conf else None
    if res2 is None or not res2["accepted"]:
        res = tr("obs")
        if not res["accepted"]:
            if res["violated"] == "postcondition":
                raise vlib.Infra("Obs-mode trace validation stopped at line %s (malformed trace?) see %s" % (
                    res["reached"], res["outfile"]))
            line = vlib.violated_line(res) or (res["reached"] or 1)
            bi, chunk, off = vlib.locate_trace(rows, line)
            name = res["violated"].split(":", 1)[1]
            ev = rows[line - 1] if line - 1 < len(rows) else {}
            sig = _signature(name, ev, behs[bi]["par"])
            what = ("real ResourceLimiter violates %s after schedule %s of scenario %s: pc=%s wpc=%s res=%s exec=%s done=%s "
                    "permH=%s permN=%s qlen=%s" % (name, [r["p"] for r in chunk[1:off]], json.dumps(behs[bi]["par"], sort_keys=True),
                                                    ev.get("pc"), ev.get("wpc"), ev.get("res"), ev.get("exec"), ev.get("done"),
                                                    ev.get("permH"), ev.get("permN"), ev.get("qlen")))[:900]
            return {"sig": sig, "beh": behs[bi], "what": what}, None
        if hs.get("blocked"):
            raise vlib.Infra("drift: %d behaviours had a goroutine that did not reach its next yield point although the "
                             "spec said the step would not block (blocked on a real lock / channel)" % hs["blocked"])
        if res2 is not None:
            line = (res2["reached"] or 0) + 1
            if res2["violated"] != "postcondition":
                line = vlib.violated_line(res2) or line
            bi, chunk, off = vlib.locate_trace(rows, min(line, len(rows)))
            raise vlib.Infra("drift: the real code is not a refinement of Limiter.tla at trace line %d (behaviour %d step %d: "
                             "%s; %s) - the model mis-predicted the code; see %s" % (
                                 line, bi, off, json.dumps(rows[min(line, len(rows)) - 1])[:300], res2["violated"], res2["outfile"]))
    chunks = vlib.split_traces(rows)
    cl, wl, outs = set(), set(), set()
    skipped = cancels = late = 0
    for ch in chunks:
        par = ch[0]["par"]
        for r in ch[1:]:
            if r["ev"] == "skip":
                skipped += 1
            if r["ev"] != "step":
                continue
            if r["p"] == "w":
                wl.add(r["wpc"])
            elif r["p"] in r["pc"]:
                cl.add(r["pc"][r["p"]])
            else:
                cancels += 1
                c = (par.get("can") or {}).get(r["p"])
                if c and r["exec"].get(c, 0) > r["done"].get(c, 0):
                    late += 1
        outs |= set(ch[-1]["res"].values())
    return None, {"behaviours": len(chunks), "events": len(rows), "caller_labels": cl, "worker_labels": wl,
                  "outcomes": outs, "skipped": skipped, "cancels": cancels, "cancel_while_running": late}


def _decide(ctx, behs, tag):
    bad, st = _replay(ctx, behs, tag)
    if bad:
        again = None
        for i in range(REPRO_TRIES):
            again, _ = _replay(ctx, [bad["beh"]], "%s_repro%d" % (tag, i), conf=False)
            if again is not None:
                break
        if again is None:
            raise vlib.Infra("counter-example not reproduced in %d fresh runs: %s" % (REPRO_TRIES, bad["sig"]))
        ctx.violation(again["sig"], again["what"], {"behaviours": [bad["beh"]]})
        return None
    return st


def run(ctx):
    _need_hooks()
    mc = vlib.tlc_mc(ctx, "Limiter", ctx.pick("Limiter_mcq.cfg", "Limiter_mc.cfg"), timeout=ctx.pick(300, 1800),
                     coverage=not ctx.quick)
    if mc["violated"]:
        raise vlib.Infra("design-level spec violates %s; spec must be repaired (see %s)" % (mc["violated"], mc["outfile"]))
    ctx.add_mc("Limiter exhaustive (%s)" % ctx.pick("ScnQuick", "ScnAll"), mc)
    if not ctx.quick and mc.get("zero_actions"):
        raise vlib.Infra("vacuous: spec actions never taken: %s" % mc["zero_actions"])

    sim = vlib.tlc_sim(ctx, "Limiter", "Limiter_sim.cfg", num=ctx.pick(1000, 6000), depth=80, timeout=ctx.pick(600, 2400))
    behs = [_norm(b) for b in sim["behaviours"]]
    n_sim, n_enum = len(behs), 0
    if not ctx.quick:
        en = vlib.tlc_emit(ctx, "Limiter", "Limiter_enum.cfg", timeout=1800)
        eb = [_norm(b) for b in en["behaviours"]]
        n_enum = len(eb)
        ctx.cov["enumerated_schedules"] = n_enum
        ctx.add_mc("Limiter all schedules of ScnEnum (history in the state)", dict(en, exhaustive=True))
        behs += eb
    seen, uniq = set(), []
    for b in behs:
        k = json.dumps(b, sort_keys=True)
        if k not in seen:
            seen.add(k)
            uniq.append(b)
    behs = uniq
    ctx.cov["evaluations"] = len(behs)
    ctx.cov["rule"] = ("schedule = scenario (limits, caller kinds, expired deadlines, cancel events) + sequence of process names "
                       "chosen by TLC (-simulate seed=%d over ScnAll%s); non-trivial = some request goes through the queue "
                       "(the worker is scheduled); distinct by scenario+schedule" % (
                           ctx.seed, "" if ctx.quick else " + every schedule of ScnEnum"))
    ctx.cov["distinct_nontrivial"] = sum(1 for b in behs if "w" in b["sched"])
    ctx.sample(behs[0])
    ctx.assumptions += [
        "goroutines are parked before every blocking channel / semaphore operation and released only when the spec says the "
        "operation will not block (a worker registered as semaphore waiter is represented by the worker parked before Acquire)",
        "the 30 s queue deadline is modelled as 'already expired at enqueue' or 'never'; cancellation happens at any step",
        "code between two yield points runs atomically in the replay; bounded scenarios (specs/Limiter.tla Scn*)",
        "yield points are the hooks of hooks/rpcprovider_limiter.patch (build tag verif)",
    ]
    st = _decide(ctx, behs, "sched")
    if st is None:
        return
    ctx.cov["traces_validated_against_impl"] += st["behaviours"]
    ctx.cov["trace_events"] = st["events"]
    ctx.cov["caller_labels"] = sorted(st["caller_labels"])
    ctx.cov["worker_labels"] = sorted(st["worker_labels"])
    ctx.cov["outcomes"] = sorted(st["outcomes"])
    ctx.cov["cancel_events"] = st["cancels"]
    ctx.cov["cancel_while_request_runs"] = st["cancel_while_running"]
    ctx.notes.append("simulated %d, enumerated %d, distinct %d schedules" % (n_sim, n_enum, len(behs)))
    miss = (CALLER_LABELS - st["caller_labels"]) | (WORKER_LABELS - st["worker_labels"])
    if miss or not {"ok", "err"} <= st["outcomes"]:
        raise vlib.Infra("vacuous: yield points %s never reached / outcomes %s" % (sorted(miss), sorted(st["outcomes"])))
    if st["cancel_while_running"] == 0:
        raise vlib.Infra("vacuous: no schedule cancels a caller while its queued request is executing")
    if st["skipped"]:
        raise vlib.Infra("drift: %d schedule steps addressed finished processes" % st["skipped"])


def replay(ctx, path):
    _need_hooks()
    with open(path) as f:
        obj = json.load(f)
    bad = None
    for i in range(REPRO_TRIES // 2):
        bad, _ = _replay(ctx, obj["behaviours"], "replay%d" % i, conf=False)
        if bad:
            break
    if bad:
        ctx.violation(bad["sig"], "replayed schedule still fails: " + bad["what"], {"behaviours": [bad["beh"]]})
