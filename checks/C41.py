"""C41 Provider load limiting admits, runs and answers each request once. (DESIGN.md section 4, C41)

M: Limiter.tla exhaustively, modelling the code AS IT IS (FixF10 = FALSE): callers of both buckets, the queue worker,
   cancel / queue-deadline environment; labels = yield points of resource_limiter.go. Invariants Bounded, AtMostOnce,
   OkMeansRan, NoForeignResult, Released, Counters, deadlock freedom, and ErrMeansNotRunModF10 = ErrMeansNotRun with
   exactly the open finding F10 tolerated (Limiter_fixF10.cfg: with the hand-off the strict ErrMeansNotRun holds).
G: schedules (scenario + sequence of process names) from TLC: -simulate (seeded) in both tiers, plus the
   exhaustive enumeration of every schedule of the small scenarios ScnEnum in the thorough tier.
R: harness/cmd/limiter replays every schedule with a gate scheduler on the real ResourceLimiter
   (hooks/rpcprovider_limiter.patch) and logs the projected state after every step.
V: TLC validates the recorded trace (Trace_Limiter.cfg): pass 1 Conf mode with the invariants on; if it does not go
   through, pass 2 Obs mode decides between a violation on the real states (re-executed, then VIOLATION) and drift
   (exit 2). Then the property as stated: one witness per class of "caller got an error although its request ran" seen in
   the traces is re-executed alone and decided by TLC with the strict ErrMeansNotRun (Trace_Limiter_strict.cfg); its
   signature (caller-cancelled-after-exec-started / deadline-after-exec-started = open known findings F10-a/b,
   anything else = VIOLATION) is derived from the violating real state.
"""
import json
import os
import vlib

LEVEL = "model_checking"
HOOK_FILE = "protocol/rpcprovider/resource_limiter_verif.go"
CALLER_LABELS = {"exec", "presend", "waiting", "fin"}
WORKER_LABELS = {"idle", "checked", "exec", "send"}
REPRO_TRIES = 8   # a Go select with two ready cases picks one at random
CTX_WHY = {"canceled": "caller-cancelled-after-exec-started",
           "queue_timeout": "deadline-after-exec-started",
           "deadline_exceeded": "deadline-after-exec-started"}
TOLERANT, STRICT = "Trace_Limiter.cfg", "Trace_Limiter_strict.cfg"


def _norm(b):
    par = dict(b["par"])
    for k in ("cal", "ev"):
        if isinstance(par.get(k), list):
            par[k] = {}
    return {"par": par, "sched": list(b["sched"])}


def _need_hooks():
    p = os.path.join(vlib.REPO, HOOK_FILE)
    if not os.path.exists(p):
        raise vlib.Infra("schedule hooks missing in %s (no %s): apply /verif/hooks/rpcprovider_limiter.patch "
                         "or run with VERIF_REPO=<tree with hooks>" % (vlib.REPO, HOOK_FILE))
    src = open(p).read()
    for sym in ("VerifLimiterYield", "VerifSetHeavyQueueTimeout", "VerifState"):
        if sym not in src:
            raise vlib.Infra("hook symbol %s missing in %s" % (sym, p))


def _f10_class(prev, r):
    """r = the first real state in which some caller has res = err although its request was executed.
    Returns (caller, signature). Only 'Acquire returned the error of the done queue ctx through the ctx case after the
    execution had started' is the known class F10; everything else gets its own signature (VIOLATION)."""
    bad = [c for c in sorted(r.get("res", {})) if r["res"][c] == "err" and r["exec"].get(c, 0) > 0]
    if not bad:
        return None, "ErrMeansNotRun"
    c = bad[0]
    why = str(r["why"].get(c))
    if r.get("p") != c:
        return c, "request-executed-after-caller-got-error:" + why.split(":")[0]
    if (why in CTX_WHY and r["exret"].get(c, -1) >= 1 and prev["exec"].get(c, 0) >= 1 and r["first"].get(c) != "none"
            and prev["pc"].get(c) == "waiting"):
        first, canc = r["first"].get(c), bool(r["canc"].get(c))
        expected = {"canceled": first == "cancel", "queue_timeout": first == "deadline" and not canc,
                    "deadline_exceeded": first == "pdeadline" or (first == "deadline" and canc)}[why]
        if not expected:   # not the error that the ctx case returns in this situation
            return c, "caller-got-error-but-request-ran:unexpected-%s" % why
        return c, CTX_WHY[why]
    return c, "caller-got-error-but-request-ran:" + why.split(":")[0]


def _signature(name, prev, ev):
    if name in ("ErrMeansNotRun", "ErrMeansNotRunModF10"):
        return _f10_class(prev, ev)[1]
    return name


_BIN = []


def _bin():
    if not _BIN:
        _BIN.append(vlib.go_build("limiter"))
    return _BIN[0]


def _replay(ctx, behs, tag, conf=True, cfg=TOLERANT):
    """returns (bad, stats, rows)"""
    binp = _bin()
    bpath = os.path.join(ctx.work, tag + "_behaviours.json")
    rpath = os.path.join(ctx.work, tag + "_raw.ndjson")
    tpath = os.path.join(ctx.work, tag + "_trace.ndjson")
    vlib.write_json(bpath, behs)
    p = vlib.run_harness(binp, [bpath, rpath], timeout=3600)
    try:
        hs = json.loads(p.stdout.strip().splitlines()[-1])
    except Exception:
        raise vlib.Infra("harness printed no summary: %s" % p.stdout[-500:])
    # behaviours in which a real-time queue deadline could have fired before its scheduled event are discarded
    allchunks = vlib.split_traces(vlib.read_ndjson(rpath))
    chunks = [ch for ch in allchunks if not any(r["ev"] == "discard" for r in ch)]
    discarded = len(allchunks) - len(chunks)
    rows = [r for ch in chunks for r in ch]
    if not rows:
        if discarded:
            return None, {"behaviours": 0, "discarded": discarded}, []
        raise vlib.Infra("dead driver: empty trace")
    vlib.write_ndjson(tpath, rows)
    tr = lambda mode: vlib.tlc_trace(ctx, "Trace_Limiter", cfg, tpath, env={"VERIF_MODE": mode},
                                     tag=tag + "_" + mode, timeout=3000)
    # pass 1: Conf mode with the invariants switched on (conforming steps produce exactly the observed states, so the
    # invariants are evaluated on real observations); only if it does not go through, pass 2 (Obs mode) decides whether
    # the real states violate the property (VIOLATION candidate) or the model merely mis-predicted the code (drift)
    res2 = tr("conf") if conf else None
    if res2 is None or not res2["accepted"]:
        res = tr("obs")
        if not res["accepted"]:
            if res["violated"] == "postcondition":
                raise vlib.Infra("Obs-mode trace validation stopped at line %s (malformed trace?) see %s" % (
                    res["reached"], res["outfile"]))
            line = vlib.violated_line(res) or (res["reached"] or 1)
            _, chunk, off = vlib.locate_trace(rows, line)
            name = res["violated"].split(":", 1)[1]
            ev = rows[line - 1] if line - 1 < len(rows) else {}
            prev = rows[line - 2] if line >= 2 else ev
            beh = behs[chunk[0]["beh"]]
            sig = _signature(name, prev, ev)
            what = ("real ResourceLimiter violates %s after schedule %s of scenario %s: pc=%s wpc=%s res=%s why=%s exec=%s done=%s "
                    "exret=%s first=%s permH=%s permN=%s qlen=%s" % (
                        name.replace("ModF10", " (beyond the known F10 class)"), [r["p"] for r in chunk[1:off]],
                        json.dumps(beh["par"], sort_keys=True), ev.get("pc"), ev.get("wpc"), ev.get("res"), ev.get("why"),
                        ev.get("exec"), ev.get("done"), ev.get("exret"), ev.get("first"), ev.get("permH"), ev.get("permN"),
                        ev.get("qlen")))[:1100]
            return {"sig": sig, "beh": beh, "what": what}, None, rows
        if hs.get("blocked"):
            raise vlib.Infra("drift: %d behaviours had a goroutine that did not reach its next yield point although the "
                             "spec said the step would not block (blocked on a real lock / channel)" % hs["blocked"])
        if res2 is not None:
            line = (res2["reached"] or 0) + 1
            if res2["violated"] != "postcondition":
                line = vlib.violated_line(res2) or line
            line = min(line, len(rows))
            _, chunk, off = vlib.locate_trace(rows, line)
            raise vlib.Infra("drift: the real code is not a refinement of Limiter.tla at trace line %d (behaviour %d step %d: "
                             "%s; %s) - the model mis-predicted the code; see %s" % (
                                 line, chunk[0]["beh"], off, json.dumps(rows[line - 1])[:300], res2["violated"], res2["outfile"]))
    cl, wl, outs, whys = set(), set(), set(), set()
    skipped = events = late = 0
    for ch in chunks:
        par = ch[0]["par"]
        for r in ch[1:]:
            if r["ev"] == "skip":
                skipped += 1
            if r["ev"] != "step":
                continue
            if r["p"] == "w":
                wl.add(r["wpc"])
            elif r["p"] in r["pc"]:
                cl.add(r["pc"][r["p"]])
            else:
                events += 1
                c = ((par.get("ev") or {}).get(r["p"]) or {}).get("c")
                if c and r["exec"].get(c, 0) > r["done"].get(c, 0):
                    late += 1
        outs |= set(ch[-1]["res"].values())
        whys |= set(ch[-1]["why"].values())
    return None, {"behaviours": len(chunks), "events": len(rows), "caller_labels": cl, "worker_labels": wl,
                  "outcomes": outs, "whys": whys, "skipped": skipped, "env_events": events, "ctx_done_while_running": late,
                  "discarded": discarded}, rows


def _f10_witnesses(rows, behs):
    """candidates of the known class per signature: behaviours whose trace contains a caller returning a ctx error after its
    execution started; deterministic ones (result not yet sent: worker still executing that request) first."""
    cands = {}
    for ch in vlib.split_traces(rows):
        prev = ch[0]
        for r in ch[1:]:
            c = r.get("p")
            if (r["ev"] == "step" and c in r.get("res", {}) and r["res"][c] == "err" and prev["res"][c] == "none"
                    and r["exec"].get(c, 0) > 0):
                _, sig = _f10_class(prev, r)
                det = prev.get("wpc") == "exec" and prev.get("wcur") == c
                cands.setdefault(sig, []).append((0 if det else 1, len(ch), ch[0]["beh"]))
                break
            prev = r
    return {sig: [behs[bi] for _, _, bi in sorted(v)[:3]] for sig, v in cands.items()}


def _directed(ctx):
    """TLC's shortest counter-examples to 'no F10 of that class' (design level), as schedules to replay on the real code"""
    res = {}
    for cfg, sig in (("Limiter_witcancel.cfg", CTX_WHY["canceled"]), ("Limiter_witdeadline.cfg", CTX_WHY["deadline_exceeded"])):
        r = vlib.tlc_mc(ctx, "Limiter", cfg, workers=1, timeout=600, tag="Limiter_" + cfg.split("_")[1].split(".")[0])
        b = [_norm(x) for x in vlib.parse_emitted(r["out"])]
        if r["violated"] and b:
            res[sig] = b[:1]
    return res


def _decide(ctx, behs, tag):
    bad, st, rows = _replay(ctx, behs, tag)
    if bad:
        again = None
        for i in range(REPRO_TRIES):
            again, _, _ = _replay(ctx, [bad["beh"]], "%s_repro%d" % (tag, i), conf=False)
            if again is not None:
                break
        if again is None:
            raise vlib.Infra("counter-example not reproduced in %d fresh runs: %s" % (REPRO_TRIES, bad["sig"]))
        ctx.violation(again["sig"], again["what"], {"behaviours": [bad["beh"]]})
        return None
    # the property as stated (ErrMeansNotRun without tolerance): every class of witness seen in the traces is re-executed
    # alone and decided by TLC with the strict configuration; its signature decides known finding vs. violation
    seen = {}
    cands = _f10_witnesses(rows, behs)
    for sig, b in _directed(ctx).items():
        cands[sig] = b + cands.get(sig, [])
    for sig, cand in sorted(cands.items()):
        got = None
        for i, beh in enumerate(cand * 2):
            got, _, _ = _replay(ctx, [beh], "%s_f10_%d_%d" % (tag, len(seen), i), conf=False, cfg=STRICT)
            if got is not None and got["sig"] == sig:
                ctx.violation(got["sig"], got["what"], {"behaviours": [beh], "cfg": "strict"})
                break
            got = None
        seen[sig] = got is not None
    st["strict_witness_classes"] = seen
    return st


def run(ctx):
    _need_hooks()
    mc = vlib.tlc_mc(ctx, "Limiter", ctx.pick("Limiter_mcq.cfg", "Limiter_mc.cfg"), timeout=ctx.pick(300, 1800),
                     coverage=not ctx.quick)
    if mc["violated"]:
        raise vlib.Infra("design-level spec violates %s; spec must be repaired (see %s)" % (mc["violated"], mc["outfile"]))
    ctx.add_mc("Limiter exhaustive (%s)" % ctx.pick("ScnQuick", "ScnAll"), mc)
    if not ctx.quick and mc.get("zero_actions"):
        raise vlib.Infra("vacuous: spec actions never taken: %s" % mc["zero_actions"])

    sim = vlib.tlc_sim(ctx, "Limiter", "Limiter_sim.cfg", num=ctx.pick(1000, 6000), depth=80, timeout=ctx.pick(600, 2400))
    behs = [_norm(b) for b in sim["behaviours"]]
    n_sim, n_enum = len(behs), 0
    if not ctx.quick:
        en = vlib.tlc_emit(ctx, "Limiter", "Limiter_enum.cfg", timeout=1800)
        eb = [_norm(b) for b in en["behaviours"]]
        n_enum = len(eb)
        ctx.cov["enumerated_schedules"] = n_enum
        ctx.add_mc("Limiter all schedules of ScnEnum (history in the state)", dict(en, exhaustive=True))
        behs += eb
    seen, uniq = set(), []
    for b in behs:
        k = json.dumps(b, sort_keys=True)
        if k not in seen:
            seen.add(k)
            uniq.append(b)
    behs = uniq
    ctx.cov["evaluations"] = len(behs)
    ctx.cov["rule"] = ("schedule = scenario (limits, caller kinds, queue deadlines never/expired, cancel and caller-deadline events) + sequence of process names "
                       "chosen by TLC (-simulate seed=%d over ScnAll%s); non-trivial = some request goes through the queue "
                       "(the worker is scheduled); distinct by scenario+schedule" % (
                           ctx.seed, "" if ctx.quick else " + every schedule of ScnEnum"))
    ctx.cov["distinct_nontrivial"] = sum(1 for b in behs if "w" in b["sched"])
    ctx.sample(behs[0])
    ctx.assumptions += [
        "goroutines are parked before every blocking channel / semaphore operation and released only when the spec says the "
        "operation will not block (a worker registered as semaphore waiter is represented by the worker parked before Acquire)",
        "the 30 s queue deadline is 'never' or 'already expired at enqueue'; a deadline firing later is represented by the "
        "caller's own context deadline (same ctx mechanism, fired deterministically as an environment step, no real timer); "
        "cancellation / deadline expiry happen at any step",
        "code between two yield points runs atomically in the replay; bounded scenarios (specs/Limiter.tla Scn*)",
        "yield points are the hooks of hooks/rpcprovider_limiter.patch (build tag verif)",
    ]
    st = _decide(ctx, behs, "sched")
    if st is None:
        return
    ctx.cov["traces_validated_against_impl"] += st["behaviours"]
    ctx.cov["trace_events"] = st["events"]
    ctx.cov["caller_labels"] = sorted(st["caller_labels"])
    ctx.cov["worker_labels"] = sorted(st["worker_labels"])
    ctx.cov["outcomes"] = sorted(st["outcomes"])
    ctx.cov["env_events"] = st["env_events"]
    ctx.cov["ctx_done_while_request_runs"] = st["ctx_done_while_running"]
    ctx.cov["return_classes"] = sorted(st["whys"])
    ctx.cov["discarded_real_time_behaviours"] = st["discarded"]
    ctx.cov["strict_witness_classes_reproduced"] = st["strict_witness_classes"]
    ctx.notes.append("simulated %d, enumerated %d, distinct %d schedules" % (n_sim, n_enum, len(behs)))
    miss = (CALLER_LABELS - st["caller_labels"]) | (WORKER_LABELS - st["worker_labels"])
    if miss or not {"ok", "err"} <= st["outcomes"]:
        raise vlib.Infra("vacuous: yield points %s never reached / outcomes %s" % (sorted(miss), sorted(st["outcomes"])))
    if st["ctx_done_while_running"] == 0:
        raise vlib.Infra("vacuous: no schedule cancels / times out a caller while its queued request is executing")
    if st["discarded"] > st["behaviours"]:
        raise vlib.Infra("more than half of the behaviours were discarded because the machine was too slow for the real-time "
                         "queue deadline (%d of %d)" % (st["discarded"], st["discarded"] + st["behaviours"]))
    if st["skipped"]:
        raise vlib.Infra("drift: %d schedule steps addressed finished processes" % st["skipped"])


def replay(ctx, path):
    _need_hooks()
    with open(path) as f:
        obj = json.load(f)
    cfg = STRICT if obj.get("cfg") == "strict" else TOLERANT
    bad = None
    for i in range(REPRO_TRIES):
        bad, _, _ = _replay(ctx, obj["behaviours"], "replay%d" % i, conf=False, cfg=cfg)
        if bad:
            break
    if bad:
        ctx.violation(bad["sig"], "replayed schedule still fails: " + bad["what"], {"behaviours": [bad["beh"]], "cfg": obj.get("cfg", "")})
