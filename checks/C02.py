"""C02 Pairing lists are valid, distinct and bounded; GetPairing <=> VerifyPairing.  (DESIGN.md section 4, C02)

M: Pairing.tla exhaustively (McInit: sorted provider triples x frozen x plan policies; UnionInit: plan + two project
   policies) - invariants Valid, Distinct, Bounded, Iff, EligibleOrderFree.
G: TLC emits random configurations (GenInit, seed = ctx.seed): 5 providers x stakes x geolocation sets x
   {ok, frozen, future (unfreeze path), jailed} x service kinds, plan / subscription / admin policies with
   ALLOWED/MIXED/EXCLUSIVE/DISABLED selected providers, mandatory and mixed add-on / extension requirements.
R: harness/t/pairing builds each configuration on a real Tester and queries GetPairing / VerifyPairing /
   EffectivePolicy for 3 epochs (plus once mid-epoch); logs the stake table and effective policy the code saw.
V: Trace_Pairing (Obs mode): the spec computes the eligible set from the logged inputs; invariants Valid, Distinct,
   Bounded, Iff, ErrOnlyPolicy, ErrIff, NoPanic are evaluated by TLC on the real answers.
   Drift only: logged effective policy is one of the spec's EffPolicies (EffConf).

This file also holds the plumbing shared by the family (C01, C40 import it).
"""
import json
import os
import vlib

LEVEL = "model_checking"

OBS_INV = ["NoPanic", "Valid", "Distinct", "Bounded", "Iff", "ErrOnlyPolicy", "ErrIff"]


# ------------------------------------------------------------------------------------------------
# shared plumbing
# ------------------------------------------------------------------------------------------------
def gen_configs(ctx, cfgfile, tag, seed=None):
    """Configurations emitted by TLC (GenInit). De-duplicated by id (the simulator prints the last one twice)."""
    sim = vlib.tlc_sim(ctx, "Pairing", cfgfile, num=1, depth=1, seed=seed, tag=tag, timeout=900)
    seen, cfgs = set(), []
    for c in sim["behaviours"]:
        if c["id"] in seen:
            continue
        seen.add(c["id"])
        cfgs.append(c)
    if not cfgs:
        raise vlib.Infra("generator produced no configurations")
    return cfgs


_BIN = {}


def driver():
    if "b" not in _BIN:
        _BIN["b"] = vlib.go_test_build("pairing")
    return _BIN["b"]


def drive(ctx, cfgs, tag, env=None, seed=None):
    """Run the chain driver on the configurations; returns (trace path, rows)."""
    inp = os.path.join(ctx.work, tag + "_in.json")
    outp = os.path.join(ctx.work, tag + "_trace.ndjson")
    vlib.write_json(inp, cfgs)
    e = {"VERIF_IN": inp, "VERIF_OUT": outp, "VERIF_SEED": ctx.seed if seed is None else seed}
    if env:
        e.update(env)
    vlib.run_test_harness(driver(), e, timeout=3600)
    rows = vlib.read_ndjson(outp)
    dead = [r for r in rows if r.get("ev") == "reset" and r.get("dead")]
    if dead:
        raise vlib.Infra("driver could not build %d configurations, e.g. %s" % (len(dead), dead[0]))
    if not any(r.get("ev") == "q" for r in rows):
        raise vlib.Infra("dead driver: no query executed")
    return outp, rows


def validate(ctx, trace_path, cfgfile, tag):
    """Obs/Conf validation of one trace. Returns None if accepted, else dict(line, inv)."""
    res = vlib.tlc_trace(ctx, "Trace_Pairing", cfgfile, trace_path, tag=tag, timeout=1800)
    if res["accepted"]:
        if res["reached"] != res["total"]:
            raise vlib.Infra("trace not consumed: reached %s of %s (%s)" % (res["reached"], res["total"], res["outfile"]))
        return None
    if res["violated"] == "postcondition":
        raise vlib.Infra("trace spec could not consume the trace at line %s (%s)" % ((res["reached"] or 0) + 1, res["outfile"]))
    line = vlib.violated_line(res)
    if line is None:
        raise vlib.Infra("cannot locate the violating line (%s)" % res["outfile"])
    return {"line": line, "inv": res["violated"].split(":", 1)[-1]}


def cfg_of_line(rows, cfgs, line):
    r = rows[line - 1]
    cid = r.get("cfg")
    for c in cfgs:
        if c["id"] == cid:
            return c, r
    return None, r


def features(row):
    """Canonical class of a query line (stable across seeds) used in signatures."""
    eff = row.get("eff", {})
    mixed = any(q.get("mx") for q in eff.get("reqs", []))
    npol = sum(1 for p in row.get("pol", []) if p.get("on") and p.get("reqs"))
    return "mode%s-%s-%s" % (eff.get("mode"), "mixreq" if mixed else ("req" if eff.get("reqs") else "noreq"),
                             "union" if npol >= 2 else "single")


def nondeterministic(rows):
    return any(r.get("ev") == "q" and (len(r["lists"]) > 1 or len(r["vers"]) > 1 or len(r["effs"]) > 1) for r in rows)


def coverage(ctx, rows, cfgs):
    qs = [r for r in rows if r.get("ev") == "q"]
    cov = {
        "configs": len(cfgs),
        "queries": len(qs),
        "queries_with_picks": sum(1 for r in qs if not r["err"] and sum(1 for t in r["tab"] if t["ok"]) > len(r["list"]) > 0),
        "queries_with_mix_reqs": sum(1 for r in qs if any(q.get("mx") for q in r["eff"].get("reqs", []))),
        "queries_error": sum(1 for r in qs if r["err"]),
        "queries_exclusive": sum(1 for r in qs if r["eff"].get("mode") == 2),
        "queries_mixed_sel": sum(1 for r in qs if r["eff"].get("mode") == 1),
        "queries_with_ineligible_rows": sum(1 for r in qs if any(not t["ok"] for t in r["tab"])),
        "verify_true": sum(sum(1 for v in r["ver"] if v) for r in qs),
        "verify_false": sum(sum(1 for v in r["ver"] if not v) for r in qs),
        "statuses": sorted({p["st"] for c in cfgs for p in c["prov"]}),
        # mandatory requirements on >= 2 collections that both carry extensions (per-requirement state of isRequirementSupported)
        "queries_two_collections_with_extensions": sum(
            1 for r in qs if not r["err"] and not any(q.get("mx") for q in r["eff"].get("reqs", []))
            and len({(q["ifc"], q["ad"]) for q in r["eff"].get("reqs", []) if q["ext"]}) >= 2),
    }
    ctx.cov["pairing"] = cov
    return cov


def load_sibling(name):
    import importlib.util
    p = os.path.join(os.path.dirname(os.path.abspath(__file__)), name + ".py")
    spec = importlib.util.spec_from_file_location("check_" + name, p)
    mod = importlib.util.module_from_spec(spec)
    spec.loader.exec_module(mod)
    return mod


ASSUMPTIONS = [
    "TLC bounded constants for the exhaustive runs (specs/Pairing_*.cfg); real configurations are sampled by TLC (GenInit, seed)",
    "provider geolocations within {USC, USE, AS}; policies never use GL (geo costs outside this universe are not representable with Den = 21)",
    "soft-jailed entries are written through the epochstorage keeper exactly as punishUnresponsiveProvider writes them",
    "testutil/common.Tester keepers (in-memory IAVL, mock bank) behave like the production app for pairing queries",
]


# ------------------------------------------------------------------------------------------------
# C02
# ------------------------------------------------------------------------------------------------
def _check(ctx, cfgs, tag, env=None):
    tpath, rows = drive(ctx, cfgs, tag, env=env)
    bad = validate(ctx, tpath, "Trace_Pairing_c02.cfg", tag)
    return tpath, rows, bad


def _repro(ctx, cfgs, cfg, inv):
    """Fresh driver run of the same input restricted to the suspected configuration (its whole batch is rebuilt so that
    accounts, addresses and epoch hashes are the same); every one of K repetitions is judged (one line each)."""
    tpath, rows, bad = _check(ctx, cfgs, "repro", env={"VERIF_K": 20, "VERIF_SPLITK": 1, "VERIF_ONLY": cfg["id"]})
    if bad is None:
        return None
    r = rows[bad["line"] - 1]
    nd = nondeterministic(rows) or len({json.dumps([x["list"], x["ver"], x["eff"]["reqs"]], sort_keys=True)
                                        for x in rows if x.get("ev") == "q" and x["k"] == r["k"] and not x["mid"]}) > 1
    sig = "%s@%s%s" % (bad["inv"], features(r), "-nondeterministic-answers" if nd else "")
    return {"sig": sig, "row": r, "inv": bad["inv"]}


def run(ctx):
    skip_mc = bool(os.environ.get("VERIF_SKIP_MC"))  # selftest knob: mutant runs only exercise the binding
    if skip_mc:
        ctx.notes.append("VERIF_SKIP_MC set: exhaustive TLC stage skipped (not a verdict-grade run)")
    else:
        mc = vlib.tlc_mc(ctx, "Pairing", ctx.pick("Pairing_mcq.cfg", "Pairing_mc.cfg"), timeout=ctx.pick(900, 3600))
        if mc["violated"]:
            raise vlib.Infra("design-level spec violates %s (see %s)" % (mc["violated"], mc["outfile"]))
        ctx.add_mc("Pairing McInit (plan policy)", mc)
    if not ctx.quick and not skip_mc:
        mu = vlib.tlc_mc(ctx, "Pairing", "Pairing_uelig.cfg", timeout=1800)
        if mu["violated"]:
            raise vlib.Infra("design-level spec (union configs) violates %s (see %s)" % (mu["violated"], mu["outfile"]))
        ctx.add_mc("Pairing UnionInit (three policies, any union order)", mu)
    cfgs = gen_configs(ctx, ctx.pick("Pairing_gen.cfg", "Pairing_gent.cfg"), "gen")
    tpath, rows, bad = _check(ctx, cfgs, "sim")
    cov = coverage(ctx, rows, cfgs)
    ctx.cov["evaluations"] = cov["queries"]
    ctx.cov["distinct_nontrivial"] = len({json.dumps([r["tab"], r["eff"]], sort_keys=True) for r in rows
                                          if r.get("ev") == "q" and not r["err"] and r["list"]})
    ctx.cov["rule"] = ("one evaluation = one (configuration, epoch) query of GetPairing + VerifyPairing for every provider; "
                       "non-trivial = non-empty pairing list; distinct by (logged stake table, logged effective policy)")
    ctx.sample(cfgs[0])
    ctx.assumptions += ASSUMPTIONS
    need = ctx.pick(10, 60)
    for k in ("queries_with_picks", "queries_with_mix_reqs", "queries_exclusive", "queries_mixed_sel",
              "queries_with_ineligible_rows", "queries_two_collections_with_extensions"):
        if cov[k] < need:
            raise vlib.Infra("vacuous coverage: %s = %d < %d" % (k, cov[k], need))
    if cov["verify_true"] < need or cov["verify_false"] < need or len(cov["statuses"]) < 4:
        raise vlib.Infra("vacuous coverage: %s" % cov)
    if bad:
        cfg, r = cfg_of_line(rows, cfgs, bad["line"])
        if cfg is None:
            raise vlib.Infra("violating line %d has no configuration" % bad["line"])
        again = _repro(ctx, cfgs, cfg, bad["inv"])
        if again is None:
            raise vlib.Infra("counter-example not reproduced: %s on configuration %s" % (bad["inv"], cfg["id"]))
        ctx.violation(again["sig"], "real pairing answers violate %s: cfg=%s epoch#%s list=%s verify=%s eff=%s" % (
            again["inv"], cfg["id"], again["row"]["k"], again["row"]["list"], again["row"]["ver"],
            json.dumps(again["row"]["eff"])[:300]), {"configs": cfgs, "only": cfg["id"]})
        return
    ctx.cov["traces_validated_against_impl"] += len(cfgs)
    ctx.cov["trace_events"] = len(rows)
    # drift only: the effective policy the code reports is one the spec derives from the raw policies
    d = validate(ctx, tpath, "Trace_Pairing_eff.cfg", "sim_eff")
    if d:
        ctx.drift.append("EffectivePolicy answer is not among the spec's EffPolicies at trace line %d" % d["line"])


def replay(ctx, path):
    with open(path) as f:
        obj = json.load(f)
    cfg = [c for c in obj["configs"] if c["id"] == obj["only"]][0]
    again = _repro(ctx, obj["configs"], cfg, None)
    if again:
        ctx.violation(again["sig"], "replayed configuration still violates %s" % again["inv"], obj)
